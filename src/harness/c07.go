package main

// C07 - integrity-block signing: verifiable signature, untouched bundle, right ID.
//
// Three harnesses, all judged by the independent model refib (src/ref/refib).
//
// C07/lib (mode 2, histories).  One IntegrityBlockSigner over one block; every
// sequence of 1..3 SignAndAddNewSignature calls; per call: which of the three
// fixture Ed25519 pairs signs (Free) x signing strategy (Dev) x attribute map (Dev).
// The harness follows the tool's flow: GetPublicKey, build the attributes
// {ed25519PublicKey: key} plus 0..2 extra entries inserted in every permutation,
// SignAndAddNewSignature(key, attributes).  Strategies (own ISigningStrategy
// implementations wrapped around the repository's ParsedEd25519KeySigningStrategy):
//   match     signs with the pair's private key, reports the pair's public key
//   otherkey  signs with the pair's private key, reports the public key of ANOTHER pair
//   flipR0 / flipR255 / flipS0 / flipS255   matching key, one bit of the signature flipped
//   shortsig  matching key, signature cut to 63 bytes
//   signerr   Sign returns an error
//   pkerr     GetPublicKey returns an error (the flow stops before signing, as in the tool)
// Oracle after every call.  match: err == nil, the block's CborBytes equal refib's
// encoding of (previous reference block + [attributes, signature] on top), they pass
// refcbor.Deterministic, the recorded signature verifies with crypto/ed25519 under
// the key in its own attributes over refib's data-to-be-signed built from SHA-512 of
// the bundle, the reference encoding of the block as it stood before the call and the
// reference encoding of the attributes; the bytes handed to Sign are exactly that
// data.  Every other strategy: an error AND CborBytes unchanged (nothing added).
// At the end of each history block bytes ‖ bundle goes through refib.Verify (parses
// the file from scratch, every signature against the stack below it, newest first).
// GetWebBundleId of the signing key == refib.WebBundleID.
//
// C07/functions (mode 1).  GenerateDataToBeSigned, ComputeWebBundleSha512, CborBytes
// of directly constructed blocks, GetWebBundleId / GenerateSignatureAttributesWithPublicKey /
// ParsedEd25519KeySigningStrategy, and ObtainIntegrityBlock on real temp files
// (size x trailing length), each compared byte-for-byte with refib.
//
// C07/tool (built sign-bundle binary from VERIF_TOOLS).  Files of size {8, 9, 100,
// 70000} (thorough: more) whose last 8 bytes are {= size, < size, > size, >= 2^63},
// signed with PKCS#8 and encrypted PKCS#8 keys.  Unsigned input: exit 0, output file
// == block ‖ input exactly, refib.Verify holds with exactly one signature whose only
// attribute is the key, printed "Web Bundle ID: " line == reference == `dump-id
// -privateKey` == `dump-id -publicKey`; signing the output again must exit non-zero.
// Input that already carries a block / whose trailing length exceeds the size: exit
// status non-zero.  Whether a refused run leaves an (empty) output file behind is
// recorded in the outcome classes, not judged (the tool creates the file before it
// looks at the input).  Files shorter than 8 bytes have no trailing length; the
// property does not speak about them: recorded only.
//
// Not covered (the property text does not settle it): attribute names that are not
// UTF-8, callers passing a public key that differs from the one in the attributes,
// public keys of the wrong length (crypto/ed25519 panics on them), -i == -o.

import (
	"bytes"
	"context"
	"crypto/ed25519"
	"crypto/sha512"
	"errors"
	"fmt"
	"io"
	"os"
	"os/exec"
	"path/filepath"
	"strings"
	"time"

	"github.com/WICG/webpackage/go/integrityblock"
	"github.com/WICG/webpackage/go/integrityblock/webbundleid"
	"github.com/WICG/webpackage/go/signedexchange/zverif/fixtures"
	"github.com/WICG/webpackage/go/signedexchange/zverif/mc"
	"github.com/WICG/webpackage/go/signedexchange/zverif/refcbor"
	"github.com/WICG/webpackage/go/signedexchange/zverif/refib"
)

var c07Eds = []*fixtures.EdIdentity{fixtures.Ed1, fixtures.Ed2, fixtures.Ed3}

// ---- attribute alphabet ----

type c07Extra struct {
	name string
	val  []byte
}

// Extra attribute entries: names that sort before / after "ed25519PublicKey" in
// bytewise order of the encoded key (shorter, same length, 2-byte head), values of
// length 0, 1, 24 (2-byte head), 64, 256 (3-byte head).  With any entry but the
// first the attributes map is >= 64 bytes long.
var c07Pool = []c07Extra{
	{"ed25519PublicKez", pattern(24, 71)},
	{strings.Repeat("k", 24), pattern(64, 72)},
	{"a", []byte{}},
	{"zz", pattern(256, 73)},
	{"ed25519PublicKe", []byte{0x5a}},
}

// c07Variant is one attributes map: the insertion order of its entries (-1 = the
// public-key entry, i >= 0 = c07Pool[i]).
type c07Variant struct {
	order []int
	name  string
}

// c07Variants: every subset of 0..2 pool entries (of the first poolN) together
// with the key entry, in every insertion order.  Variant 0 is the key entry alone.
func c07Variants(poolN int) []c07Variant {
	var subsets [][]int
	subsets = append(subsets, []int{})
	for i := 0; i < poolN; i++ {
		subsets = append(subsets, []int{i})
	}
	for i := 0; i < poolN; i++ {
		for j := i + 1; j < poolN; j++ {
			subsets = append(subsets, []int{i, j})
		}
	}
	var out []c07Variant
	for _, s := range subsets {
		elems := append([]int{-1}, s...)
		for _, p := range perms(len(elems)) {
			v := c07Variant{}
			for _, pi := range p {
				v.order = append(v.order, elems[pi])
				if elems[pi] < 0 {
					v.name += "K"
				} else {
					v.name += fmt.Sprint(elems[pi])
				}
			}
			out = append(out, v)
		}
	}
	return out
}

const c07NarrowPool = 5 // c07Pool[:5] is the hand-picked pool above; the generated names follow

// Forty generated attribute names of 3, 4 and 5 bytes (many share a length) whose leading letters are scrambled, so
// that insertion order, plain string order and deterministic order (shorter first, then bytewise) all differ: the
// NUMBER of attributes is a quantity too - a sort that is only stable, or only correct, up to a dozen elements, a
// fixed-size table, a map head that changes width at 24 - and the hand-picked pool stops at three entries per map.
func init() {
	for i := 0; i < 40; i++ {
		name := fmt.Sprintf("%c%02d%s", "abcdefghijklmnopqrstuvwxyz"[(i*7)%26], i, strings.Repeat("p", i%3))
		c07Pool = append(c07Pool, c07Extra{name, pattern(1+i%5, int64(80+i))})
	}
	for _, n := range []int{11, 12, 13, 14, 22, 23, 24, 40} {
		var asc, desc, scr []int
		for i := 0; i < n; i++ {
			asc = append(asc, c07NarrowPool+i)
			desc = append(desc, c07NarrowPool+n-1-i)
			scr = append(scr, c07NarrowPool+(i*7)%n)
		}
		if n%7 == 0 { // 7 does not generate Z/n: fall back to a rotation
			scr = append(append([]int{}, asc[n/2:]...), asc[:n/2]...)
		}
		wide := []c07Variant{
			{order: append([]int{-1}, asc...), name: fmt.Sprintf("K+%d-generated-ascending", n)},
			{order: append(append([]int{}, desc...), -1), name: fmt.Sprintf("%d-generated-descending+K", n)},
			{order: append(append(append([]int{}, scr[:n/2]...), -1), scr[n/2:]...), name: fmt.Sprintf("%d-generated-scrambled-around-K", n)},
		}
		c07VarsAll = append(c07VarsAll, wide...)
		if n == 13 || n == 24 {
			c07VarsQuick = append(c07VarsQuick, wide[2])
			c07VarsThorough = append(c07VarsThorough, wide[1], wide[2])
		}
	}
}

var c07VarsQuick = c07Variants(3)    // 25 maps (+ 2 wide ones)
var c07VarsThorough = c07Variants(4) // 45 maps (signing histories, thorough; + 4 wide ones)
var c07VarsAll = c07Variants(5)      // 71 maps (function sweeps; + 24 wide ones)

// c07BuildAttrs builds the implementation's map (inserting in the variant's
// order) and the reference attribute list.  withKey=false leaves the key entry out.
func c07BuildAttrs(v c07Variant, pub []byte, withKey bool) (integrityblock.SignatureAttributesMap, []refib.Attr) {
	m := integrityblock.SignatureAttributesMap{}
	var ref []refib.Attr
	for _, e := range v.order {
		if e < 0 {
			if !withKey {
				continue
			}
			m[integrityblock.Ed25519publicKeyAttributeName] = append([]byte{}, pub...)
			ref = append(ref, refib.Attr{Name: refib.KeyAttr, Value: append([]byte{}, pub...)})
			continue
		}
		m[c07Pool[e].name] = append([]byte{}, c07Pool[e].val...)
		ref = append(ref, refib.Attr{Name: c07Pool[e].name, Value: c07Pool[e].val})
	}
	return m, ref
}

// ---- signing strategies ----

const (
	c07Match = iota
	c07OtherKey
	c07FlipR0
	c07FlipR255
	c07FlipS0
	c07FlipS255
	c07ShortSig
	c07SignErr
	c07PKErr
	c07NModes
)

var c07ModeNames = [c07NModes]string{"match", "otherkey", "flipR0", "flipR255", "flipS0", "flipS255", "shortsig", "signerr", "pkerr"}

// key fragment used in violation keys for each non-matching mode
var c07ModeKey = [c07NModes]string{"match", "mismatching-key", "bad-signature", "bad-signature", "bad-signature", "bad-signature", "bad-signature", "sign-error", "getpublickey-error"}

var c07RefusalWhat = map[string]string{
	"mismatching-key":    "strategy reports the public key of another pair: the signature does not verify under the key being recorded, yet the call did not return an error and leave the stack unchanged",
	"bad-signature":      "strategy returns a corrupted signature (one bit flipped / truncated): the call did not return an error and leave the stack unchanged",
	"sign-error":         "strategy's Sign failed: the call did not return an error and leave the stack unchanged",
	"getpublickey-error": "unreachable",
}

var c07FlipBit = map[int]int{c07FlipR0: 0, c07FlipR255: 255, c07FlipS0: 256, c07FlipS255: 511}

type c07Strat struct {
	mode      int
	inner     integrityblock.ISigningStrategy // the repository's own strategy for the signing pair
	other     integrityblock.ISigningStrategy // the repository's own strategy for another pair
	signCalls int
	data      []byte // what the last Sign call was handed
	key       int
	ring      []byte // when set, GetPublicKey (matching mode) hands out a window of this keyring
}

func (s *c07Strat) Sign(data []byte) ([]byte, error) {
	s.signCalls++
	s.data = append([]byte{}, data...)
	if s.mode == c07SignErr {
		return nil, errors.New("c07: injected Sign failure")
	}
	sig, err := s.inner.Sign(data)
	if err != nil {
		return nil, err
	}
	sig = append([]byte{}, sig...)
	if bit, ok := c07FlipBit[s.mode]; ok {
		sig[bit/8] ^= 1 << uint(bit%8)
	}
	if s.mode == c07ShortSig {
		sig = sig[:len(sig)-1]
	}
	return sig, nil
}

func (s *c07Strat) GetPublicKey() (ed25519.PublicKey, error) {
	switch s.mode {
	case c07PKErr:
		return nil, errors.New("c07: injected GetPublicKey failure")
	case c07OtherKey:
		return s.other.GetPublicKey()
	}
	if s.ring != nil {
		// a 32-byte window of the caller's keyring: the keys of the other pairs lie in its spare capacity
		return ed25519.PublicKey(s.ring[32*s.key : 32*s.key+32]), nil
	}
	return s.inner.GetPublicKey()
}

// c07Keyring: the public keys of all fixture pairs in one contiguous array (fresh per execution).
func c07Keyring() []byte {
	var ring []byte
	for _, id := range c07Eds {
		ring = append(ring, id.Pub...)
	}
	return ring
}

func c07NewStrat(mode, key int) *c07Strat {
	return &c07Strat{
		mode:  mode,
		key:   key,
		inner: integrityblock.NewParsedEd25519KeySigningStrategy(c07Eds[key].Priv),
		other: integrityblock.NewParsedEd25519KeySigningStrategy(c07Eds[(key+1)%len(c07Eds)].Priv),
	}
}

// ---- helpers ----

func c07U64(v uint64) []byte {
	return []byte{byte(v >> 56), byte(v >> 48), byte(v >> 40), byte(v >> 32), byte(v >> 24), byte(v >> 16), byte(v >> 8), byte(v)}
}

// c07File: size bytes; the last 8 state `trailing`, the rest is pattern content.
// For size < 8 the file is pattern content only.
func c07File(size int, trailing uint64, seed int64) []byte {
	if size < 8 {
		return pattern(size, seed+int64(size))
	}
	b := pattern(size-8, seed+int64(size))
	return append(b, c07U64(trailing)...)
}

// c07LookAlike overwrites the start of an (unsigned) file with the first ten bytes of an integrity block:
// array(3) head, byte-string head 0x48 and the integrity-block magic at offsets 2..9.  Whether a file carries an
// integrity block is decided by its trailing length, not by how it begins.
func c07LookAlike(file []byte) []byte {
	if len(file) < 18 {
		return file
	}
	out := append([]byte{}, file...)
	copy(out, append([]byte{0x83, 0x48}, integrityblock.IntegrityBlockMagic...))
	return out
}

func c07Sign(s *integrityblock.IntegrityBlockSigner, pub ed25519.PublicKey, m integrityblock.SignatureAttributesMap) (err error, pan string) {
	defer func() {
		if r := recover(); r != nil {
			pan = fmt.Sprint(r)
		}
	}()
	err = s.SignAndAddNewSignature(pub, m)
	return
}

func c07Cbor(ib *integrityblock.IntegrityBlock) (b []byte, err error, pan string) {
	defer func() {
		if r := recover(); r != nil {
			pan = fmt.Sprint(r)
		}
	}()
	b, err = ib.CborBytes()
	return
}

// c07PlainSeeker is an io.ReadSeeker without WriterTo that returns at most
// `chunk` bytes per Read.
type c07PlainSeeker struct {
	data  []byte
	pos   int64
	chunk int
}

func (r *c07PlainSeeker) Read(p []byte) (int, error) {
	if r.pos >= int64(len(r.data)) {
		return 0, io.EOF
	}
	n := len(p)
	if n > r.chunk {
		n = r.chunk
	}
	n = copy(p[:n], r.data[r.pos:])
	r.pos += int64(n)
	return n, nil
}

// c07FailSeeker fails every Read once failAt bytes have been delivered.
type c07FailSeeker struct {
	c07PlainSeeker
	failAt int
}

func (r *c07FailSeeker) Read(p []byte) (int, error) {
	left := r.failAt - int(r.pos)
	if left <= 0 {
		return 0, errors.New("c07: injected read error")
	}
	if len(p) > left {
		p = p[:left]
	}
	return r.c07PlainSeeker.Read(p)
}

func (r *c07PlainSeeker) Seek(off int64, whence int) (int64, error) {
	var np int64
	switch whence {
	case io.SeekStart:
		np = off
	case io.SeekCurrent:
		np = r.pos + off
	case io.SeekEnd:
		np = int64(len(r.data)) + off
	}
	if np < 0 {
		return 0, errors.New("c07: negative position")
	}
	r.pos = np
	return np, nil
}

// ---- C07/lib ----

func c07LibRun(c *mc.Ctx) {
	vars := c07VarsQuick
	if !c.Quick() {
		vars = c07VarsThorough
	}
	depth := c.Pick(3, 4)
	bundle := c07File(100, 100, c.Seed)
	refHash := refib.BundleHash(bundle)
	hash, herr := integrityblock.ComputeWebBundleSha512(bytes.NewReader(bundle), 0)
	if herr != nil || !bytes.Equal(hash, refHash) {
		c.Fail("C07/lib:hash", "ComputeWebBundleSha512 differs from SHA-512 of the bundle", hx(bundle), hx(refHash), fmt.Sprintf("%s err=%v", hx(hash), herr))
		return
	}
	ib := &integrityblock.IntegrityBlock{Magic: integrityblock.IntegrityBlockMagic, Version: integrityblock.VersionB1}
	signer := &integrityblock.IntegrityBlockSigner{WebBundleHash: hash, IntegrityBlock: ib}
	ref := refib.NewBlock()
	cur, _ := ref.Encode()
	if got, err, pan := c07Cbor(ib); err != nil || pan != "" || !bytes.Equal(got, cur) {
		c.Fail("C07/lib:empty-block", "empty integrity block differs from the reference encoding", "", hx(cur), fmt.Sprintf("%s err=%v panic=%s", hx(got), err, pan))
		return
	}
	desc := ""
	accepted, refused := 0, 0
	nontrivial := false
	ring := c07Keyring()
	for step := 0; step < depth; step++ {
		k := c.Free(len(c07Eds)+1, "op")
		if k == 0 {
			break
		}
		key := k - 1
		id := c07Eds[key]
		mode := c.Dev(c07NModes, "strategy")
		v := vars[c.Dev(len(vars), "attrs")]
		desc += fmt.Sprintf("%s/%s/%s;", id.Name, c07ModeNames[mode], v.name)
		c.Transitions(1)
		nontrivial = nontrivial || step > 0 || mode != c07Match || len(v.order) > 1

		if got, want := webbundleid.GetWebBundleId(id.Pub), refib.WebBundleID(id.Pub); got != want {
			c.Fail("C07/lib:id:"+id.Name, "GetWebBundleId differs from the lower-case unpadded base32 of key+000102", hx(id.Pub), want, got)
			return
		}

		st := c07NewStrat(mode, key)
		st.ring = ring
		signer.SigningStrategy = st
		pub, perr := signer.SigningStrategy.GetPublicKey()
		if perr == nil {
			// the tool reports the Web Bundle ID of the strategy's key on every run; the key it is handed here is a
			// window of the caller's keyring (whatever this call does to the memory behind it shows in later steps)
			if got, want := webbundleid.GetWebBundleId(pub), refib.WebBundleID(pub); got != want {
				c.Fail("C07/lib:id-of-strategy-key:"+id.Name, "GetWebBundleId differs from the lower-case unpadded base32 of key+000102", hx(pub), want, got)
				return
			}
		}
		if perr != nil {
			// the flow of SignWithIntegrityBlock stops here; nothing was called on the block
			c.Outcome("step pkerr: flow stops before signing (harness-side, nothing to judge)")
			refused++
			continue
		}
		m, refAttrs := c07BuildAttrs(v, pub, true)
		if len(v.order) == 1 {
			m = integrityblock.GenerateSignatureAttributesWithPublicKey(pub)
		}
		attrBytes, aerr := refib.EncodeAttrs(refAttrs)
		if aerr != nil {
			panic(aerr)
		}
		dtbs := refib.DataToBeSigned(refHash, cur, attrBytes)
		expectAccept := mode == c07Match
		if expectAccept {
			c.Outcome("gen: step expects acceptance")
		} else {
			c.Outcome("gen: step expects refusal")
		}
		nBefore := len(ib.SignatureStack)

		err, pan := c07Sign(signer, pub, m)
		c.Eval()
		if pan != "" {
			c.Fail("C07/lib:panic:"+desc, "SignAndAddNewSignature panicked", desc, "no panic", pan)
			return
		}
		after, cerr, cpan := c07Cbor(ib)
		if cerr != nil || cpan != "" {
			c.Fail("C07/lib:cbor:"+desc, "CborBytes failed after a signing call", desc, "bytes", fmt.Sprintf("err=%v panic=%s", cerr, cpan))
			return
		}
		c.State(after)
		if st.signCalls > 0 && !bytes.Equal(st.data, dtbs) {
			c.Fail("C07/lib:dtbs:"+desc, "data handed to the signing strategy differs from the reference data-to-be-signed", desc, hx(dtbs), hx(st.data))
			return
		}
		if !expectAccept {
			grew := len(ib.SignatureStack) != nBefore || !bytes.Equal(after, cur)
			if err == nil || grew {
				c.Outcome("VIOLATION step " + c07ModeNames[mode] + ": accepted")
				c.Fail("C07/lib:"+c07ModeKey[mode]+":"+desc,
					c07RefusalWhat[c07ModeKey[mode]],
					fmt.Sprintf("history %s (last call: strategy %s, key reported %s)", desc, c07ModeNames[mode], hx(pub)),
					"error, stack unchanged ("+fmt.Sprint(nBefore)+" signatures)",
					fmt.Sprintf("err=%v, stack has %d signatures, block=%s", err, len(ib.SignatureStack), hx(after)))
				return
			}
			c.Outcome("step " + c07ModeNames[mode] + ": refused, stack unchanged")
			refused++
			continue
		}
		if err != nil {
			c.Fail("C07/lib:refused:"+desc, "a signing call with a matching key pair was refused", desc, "nil", err.Error())
			return
		}
		if len(ib.SignatureStack) != nBefore+1 {
			c.Fail("C07/lib:stacklen:"+desc, "successful signing call did not add exactly one signature", desc, fmt.Sprint(nBefore+1), fmt.Sprint(len(ib.SignatureStack)))
			return
		}
		sig := ib.SignatureStack[0].Signature
		next := ref.Push(refib.Signature{Attrs: refAttrs, Sig: append([]byte{}, sig...)})
		want, _ := next.Encode()
		if !bytes.Equal(after, want) {
			c.Fail("C07/lib:block:"+desc, "block bytes after signing differ from the reference encoding (new signature first, older ones unchanged, attributes in deterministic order)", desc, hx(want), hx(after))
			return
		}
		if derr := refcbor.Deterministic(after); derr != nil {
			c.Fail("C07/lib:det:"+desc, "block bytes are not deterministic CBOR", desc, "deterministic", derr.Error())
			return
		}
		if len(sig) != ed25519.SignatureSize || !ed25519.Verify(ed25519.PublicKey(pub), dtbs, sig) {
			c.Fail("C07/lib:verify:"+desc, "recorded signature does not verify under the key in its attributes over the reference data-to-be-signed", desc, "verifies", fmt.Sprintf("sig=%s", hx(sig)))
			return
		}
		ref, cur = next, want
		accepted++
		c.Outcome("step match: accepted, block == reference, signature verifies")
	}
	if desc == "" {
		c.Outcome("empty history")
		return
	}
	if len(ref.Stack) > 0 {
		// whole-file verification from scratch
		file := append(append([]byte{}, cur...), bundle...)
		vf, verr := refib.Verify(file)
		if verr != nil {
			c.Fail("C07/lib:file:"+desc, "block followed by the bundle does not pass the reference verifier", desc, "valid", verr.Error())
			return
		}
		if !bytes.Equal(vf.Bundle, bundle) || len(vf.Keys) != accepted {
			c.Fail("C07/lib:file:"+desc, "reference verifier found a different bundle / number of signatures", desc, fmt.Sprint(accepted), fmt.Sprint(len(vf.Keys)))
			return
		}
	}
	c.Sample(desc)
	c.Outcome(fmt.Sprintf("history ok: %d accepted, %d refused", accepted, refused))
	if nontrivial {
		c.Nontrivial([]byte(desc))
	}
}

// ---- C07/functions ----

func c07FuncRun(c *mc.Ctx) {
	vars := c07VarsAll // cheap: always the full attribute alphabet
	switch c.Free(5, "function") {
	case 0: // GenerateDataToBeSigned
		hl := []int{0, 1, 63, 64, 65}[c.Free(5, "hashlen")]
		var hash []byte
		if hl > 0 {
			hash = pattern(hl, c.Seed+5)
		}
		var block []byte
		switch c.Free(3, "block") {
		case 1:
			block, _ = refib.NewBlock().Encode()
		case 2:
			block = pattern(300, c.Seed+6)
		}
		vi := c.Free(len(vars)+1, "attrs")
		var m integrityblock.SignatureAttributesMap
		var ra []refib.Attr
		name := "empty"
		if vi < len(vars) {
			withKey := true
			m, ra = c07BuildAttrs(vars[vi], fixtures.Ed1.Pub, withKey)
			name = vars[vi].name
		} else {
			m = integrityblock.SignatureAttributesMap{}
		}
		ab, _ := refib.EncodeAttrs(ra)
		want := refib.DataToBeSigned(hash, block, ab)
		got, err := integrityblock.GenerateDataToBeSigned(hash, block, m)
		c.Eval()
		desc := fmt.Sprintf("dtbs(hashlen=%d,blocklen=%d,attrs=%s)", hl, len(block), name)
		c.State(want)
		if err != nil || !bytes.Equal(got, want) {
			c.Fail("C07/functions:"+desc, "GenerateDataToBeSigned differs from the reference concatenation", desc, hx(want), fmt.Sprintf("%s err=%v", hx(got), err))
			return
		}
		c.Outcome(fmt.Sprintf("dtbs ok (attributes %s 64 bytes)", map[bool]string{true: ">=", false: "<"}[len(ab) >= 64]))
		c.Nontrivial([]byte(desc))
	case 1: // ComputeWebBundleSha512
		sizes := []int{0, 1, 8, 9, 100, 32768, 32769, 70000}
		size := sizes[c.Free(len(sizes), "size")]
		var offs []int
		for _, o := range []int{0, 1, 8, size - 1, size} {
			dup := false
			for _, x := range offs {
				dup = dup || x == o
			}
			if o >= 0 && o <= size && !dup {
				offs = append(offs, o)
			}
		}
		off := offs[c.Free(len(offs), "offset")]
		si := c.Free(3, "startpos")
		start := []int{0, size / 2, size}[si]
		kind := c.Free(3, "reader")
		content := pattern(size, c.Seed+int64(size))
		var r io.ReadSeeker
		switch kind {
		case 0:
			br := bytes.NewReader(content)
			br.Seek(int64(start), io.SeekStart)
			r = br
		case 1:
			r = &c07PlainSeeker{data: content, pos: int64(start), chunk: 1 << 30}
		case 2:
			r = &c07PlainSeeker{data: content, pos: int64(start), chunk: 7}
		}
		// history: an earlier hashing pass in the same process (one that failed part-way, or one over
		// other content) must not influence this one
		prior := c.Free(4, "earlier call")
		other := pattern(4096, c.Seed+99)
		switch prior {
		case 1, 2:
			failAt := []int{0, 1, 2049}[prior]
			_, perr := integrityblock.ComputeWebBundleSha512(&c07FailSeeker{c07PlainSeeker{data: other, chunk: 1 << 30}, failAt}, 0)
			if perr == nil {
				c.Fail(fmt.Sprintf("C07/functions:sha512-failing-reader@%d", failAt), "ComputeWebBundleSha512 reported success although the reader failed", fmt.Sprintf("reader failing after %d bytes", failAt), "error", "nil")
				return
			}
		case 3:
			integrityblock.ComputeWebBundleSha512(bytes.NewReader(other), 0)
		}
		w := sha512.Sum512(content[off:])
		got, err := integrityblock.ComputeWebBundleSha512(r, int64(off))
		c.Eval()
		desc := fmt.Sprintf("sha512(size=%d,offset=%d,startpos=%d,reader=%d,earlier=%d)", size, off, start, kind, prior)
		c.StateU64(uint64(size)<<32 | uint64(off)<<10 | uint64(prior)<<8 | uint64(si)<<4 | uint64(kind))
		if err != nil || !bytes.Equal(got, w[:]) {
			c.Fail("C07/functions:"+desc, "ComputeWebBundleSha512 differs from SHA-512 of the file from the offset", desc, hx(w[:]), fmt.Sprintf("%s err=%v", hx(got), err))
			return
		}
		c.Outcome("sha512 ok")
		c.Nontrivial([]byte(desc))
	case 2: // CborBytes of directly constructed blocks
		magic := [][]byte{refib.Magic, {}, pattern(24, 3)}[c.Dev(3, "magic")]
		version := [][]byte{refib.VersionB1, {'2', 0, 0, 0}, {}}[c.Dev(3, "version")]
		n := c.Free(4, "stack")
		ib := &integrityblock.IntegrityBlock{Magic: magic, Version: version}
		rb := &refib.Block{Magic: magic, Version: version}
		desc := fmt.Sprintf("cbor(magic=%d,version=%d", len(magic), len(version))
		for i := 0; i < n; i++ {
			v := vars[c.Dev(len(vars), "attrs")]
			sl := []int{64, 0, 23, 24, 256}[c.Dev(5, "siglen")]
			m, ra := c07BuildAttrs(v, c07Eds[i%3].Pub, true)
			sig := pattern(sl, int64(100+i))
			ib.SignatureStack = append(ib.SignatureStack, &integrityblock.IntegritySignature{SignatureAttributes: m, Signature: sig})
			rb.Stack = append(rb.Stack, refib.Signature{Attrs: ra, Sig: sig})
			desc += fmt.Sprintf(",[%s,%d]", v.name, sl)
		}
		desc += ")"
		want, _ := rb.Encode()
		got, err, pan := c07Cbor(ib)
		c.Eval()
		c.State(want)
		if err != nil || pan != "" || !bytes.Equal(got, want) {
			c.Fail("C07/functions:"+desc, "CborBytes differs from the reference encoding of the block", desc, hx(want), fmt.Sprintf("%s err=%v panic=%s", hx(got), err, pan))
			return
		}
		if derr := refcbor.Deterministic(got); derr != nil {
			c.Fail("C07/functions:det:"+desc, "CborBytes output is not deterministic CBOR", desc, "deterministic", derr.Error())
			return
		}
		c.Outcome(fmt.Sprintf("cbor ok, %d signatures", n))
		if n > 0 {
			c.Nontrivial([]byte(desc))
		}
	case 3: // Web Bundle ID, attribute helper, the repository's own strategy
		keys := [][]byte{fixtures.Ed1.Pub, fixtures.Ed2.Pub, fixtures.Ed3.Pub, make([]byte, 32), bytes.Repeat([]byte{0xff}, 32), pattern(32, c.Seed+9)}
		ki := c.Free(len(keys), "key")
		pub := append([]byte{}, keys[ki]...)
		want := refib.WebBundleID(pub)
		got := webbundleid.GetWebBundleId(ed25519.PublicKey(pub))
		c.Eval()
		desc := "id(" + hx(pub) + ")"
		c.State(pub)
		if got != want {
			c.Fail("C07/functions:"+desc, "GetWebBundleId differs from the lower-case unpadded base32 of key+000102", desc, want, got)
			return
		}
		m := integrityblock.GenerateSignatureAttributesWithPublicKey(ed25519.PublicKey(pub))
		if len(m) != 1 || !bytes.Equal(m[refib.KeyAttr], pub) {
			c.Fail("C07/functions:attrs:"+desc, "GenerateSignatureAttributesWithPublicKey is not {ed25519PublicKey: key}", desc, hx(pub), fmt.Sprint(m))
			return
		}
		if ki < 3 {
			id := c07Eds[ki]
			s := integrityblock.NewParsedEd25519KeySigningStrategy(id.Priv)
			pk, perr := s.GetPublicKey()
			data := pattern(1+ki*70, c.Seed)
			sig, serr := s.Sign(data)
			if perr != nil || serr != nil || !bytes.Equal(pk, id.Pub) || !ed25519.Verify(id.Pub, data, sig) {
				c.Fail("C07/functions:strategy:"+id.Name, "ParsedEd25519KeySigningStrategy: key or signature wrong", id.Name, "pub, verifying signature", fmt.Sprintf("pk=%s perr=%v serr=%v", hx(pk), perr, serr))
				return
			}
		}
		c.Outcome("id ok")
		c.Nontrivial([]byte(desc))
	case 4: // ObtainIntegrityBlock (+ hash through the same *os.File) on real files
		sizes := []int{0, 7, 8, 9, 100}
		size := sizes[c.Free(len(sizes), "size")]
		var tr uint64
		if size >= 8 {
			s := uint64(size)
			al := []uint64{s, s - 1, 0, 1, s + 1, 1 << 31, 1 << 32, 1 << 62, 1<<63 - 1, 1 << 63, 1<<63 + s - 1, 1<<63 + s, 1<<63 + s + 1, -s, -s + 1, ^uint64(0)}
			tr = al[c.Free(len(al), "trailing")]
		}
		file := c07File(size, tr, c.Seed)
		lk := ""
		if size >= 18 && c.Free(2, "content start: pattern / like an integrity block") == 1 {
			file = c07LookAlike(file)
			lk = ",starts like an integrity block"
		}
		class := refib.Classify(file)
		desc := fmt.Sprintf("obtain(size=%d,trailing=%d%s)", size, tr, lk)
		c.State(file)
		dir, err := os.MkdirTemp(os.TempDir(), "c07f-")
		if err != nil {
			c.Cap("cannot create temp dir: " + err.Error())
			return
		}
		defer os.RemoveAll(dir)
		p := filepath.Join(dir, "in.wbn")
		if err := os.WriteFile(p, file, 0600); err != nil {
			c.Cap("cannot write temp file: " + err.Error())
			return
		}
		f, err := os.Open(p)
		if err != nil {
			c.Cap("cannot open temp file: " + err.Error())
			return
		}
		defer f.Close()
		c.Outcome("gen: input " + class)
		var blk *integrityblock.IntegrityBlock
		var off int64
		var oerr error
		pan := ""
		func() {
			defer func() {
				if r := recover(); r != nil {
					pan = fmt.Sprint(r)
				}
			}()
			blk, off, oerr = integrityblock.ObtainIntegrityBlock(f)
		}()
		c.Eval()
		if pan != "" {
			c.Fail("C07/functions:panic:"+desc, "ObtainIntegrityBlock panicked", desc, "no panic", pan)
			return
		}
		switch class {
		case refib.TooShort:
			c.Outcome(fmt.Sprintf("obtain too-short file: error=%v (recorded, not judged)", oerr != nil))
			return
		case refib.HasBlock, refib.Oversize:
			if oerr == nil {
				c.Fail("C07/functions:"+desc, "ObtainIntegrityBlock accepted a file whose trailing length differs from its size", desc+" "+class, "error", fmt.Sprintf("nil error, offset %d", off))
				return
			}
			c.Outcome("obtain " + class + ": refused")
			c.Nontrivial([]byte(desc))
			return
		}
		if oerr != nil || blk == nil || off != 0 {
			c.Fail("C07/functions:"+desc, "ObtainIntegrityBlock refused an unsigned file or returned a non-zero bundle offset", desc, "empty block, offset 0", fmt.Sprintf("err=%v offset=%d", oerr, off))
			return
		}
		want, _ := refib.NewBlock().Encode()
		got, cerr, cpan := c07Cbor(blk)
		if cerr != nil || cpan != "" || !bytes.Equal(got, want) {
			c.Fail("C07/functions:empty:"+desc, "fresh integrity block differs from the reference empty block", desc, hx(want), fmt.Sprintf("%s err=%v panic=%s", hx(got), cerr, cpan))
			return
		}
		// the tool hashes through the same open file right after this call
		h, herr := integrityblock.ComputeWebBundleSha512(f, off)
		w := sha512.Sum512(file)
		if herr != nil || !bytes.Equal(h, w[:]) {
			c.Fail("C07/functions:filehash:"+desc, "ComputeWebBundleSha512 on the file just examined differs from SHA-512 of the file", desc, hx(w[:]), fmt.Sprintf("%s err=%v", hx(h), herr))
			return
		}
		c.Outcome("obtain unsigned: empty block, offset 0, hash ok")
		c.Nontrivial([]byte(desc))
	}
}

// ---- C07/tool ----

type c07Proc struct {
	exit     int
	stdout   string
	stderr   string
	timedOut bool
	startErr error
}

func c07RunTool(dir string, env []string, args ...string) c07Proc {
	ctx, cancel := context.WithTimeout(context.Background(), 120*time.Second)
	defer cancel()
	cmd := exec.CommandContext(ctx, filepath.Join(os.Getenv("VERIF_TOOLS"), "sign-bundle"), args...)
	cmd.Dir = dir
	cmd.Env = append([]string{"PATH=/usr/bin:/bin", "HOME=" + dir, "TMPDIR=" + dir}, env...)
	var so, se bytes.Buffer
	cmd.Stdout, cmd.Stderr = &so, &se
	cmd.Stdin = nil
	err := cmd.Run()
	p := c07Proc{stdout: so.String(), stderr: se.String()}
	if ctx.Err() != nil {
		p.timedOut = true
		p.exit = -1
		return p
	}
	if err != nil {
		var ee *exec.ExitError
		if errors.As(err, &ee) {
			p.exit = ee.ExitCode()
		} else {
			p.startErr = err
			p.exit = -1
		}
	}
	return p
}

// c07IDLines returns the values of all "Web Bundle ID: " lines of a tool's stdout.
func c07IDLines(stdout string) []string {
	var out []string
	for _, l := range strings.Split(stdout, "\n") {
		if strings.HasPrefix(l, "Web Bundle ID: ") {
			out = append(out, strings.TrimPrefix(l, "Web Bundle ID: "))
		}
	}
	return out
}

func c07Left(path string) string {
	fi, err := os.Stat(path)
	if err != nil {
		return "no output file"
	}
	if fi.Size() == 0 {
		return "empty output file left behind"
	}
	return "non-empty output file left behind"
}

type c07ToolKey struct {
	name   string
	id     *fixtures.EdIdentity
	keyPEM string
	env    []string
}

func c07ToolKeys(quick bool) []c07ToolKey {
	ks := []c07ToolKey{
		{"Ed1-pkcs8", fixtures.Ed1, fixtures.Ed1.KeyPEM, nil},
		{"Ed1-encrypted", fixtures.Ed1, fixtures.Ed1KeyEncPEM, []string{"WEB_BUNDLE_SIGNING_PASSPHRASE=" + fixtures.Passphrase}},
		{"Ed2-pkcs8", fixtures.Ed2, fixtures.Ed2.KeyPEM, nil},
	}
	if !quick {
		ks = append(ks, c07ToolKey{"Ed3-pkcs8", fixtures.Ed3, fixtures.Ed3.KeyPEM, nil})
	}
	return ks
}

type c07Trailing struct {
	name string
	val  func(size uint64) uint64
}

func c07Trailings(quick bool) []c07Trailing {
	t := []c07Trailing{
		{"size", func(s uint64) uint64 { return s }},
		{"size-1", func(s uint64) uint64 { return s - 1 }},
		{"0", func(s uint64) uint64 { return 0 }},
		{"size+1", func(s uint64) uint64 { return s + 1 }},
		{"2^63-1", func(s uint64) uint64 { return 1<<63 - 1 }},
		{"2^63", func(s uint64) uint64 { return 1 << 63 }},
		{"2^63+size", func(s uint64) uint64 { return 1<<63 + s }},
		{"2^64-1", func(s uint64) uint64 { return ^uint64(0) }},
	}
	if !quick {
		t = append(t,
			c07Trailing{"1", func(s uint64) uint64 { return 1 }},
			c07Trailing{"2^32+size", func(s uint64) uint64 { return 1<<32 + s }},
			c07Trailing{"2^62", func(s uint64) uint64 { return 1 << 62 }},
			c07Trailing{"2^63+size+1", func(s uint64) uint64 { return 1<<63 + s + 1 }},
			c07Trailing{"2^64-size", func(s uint64) uint64 { return -s }},
		)
	}
	return t
}

func c07ToolRun(c *mc.Ctx) {
	if os.Getenv("VERIF_TOOLS") == "" {
		c.Cap("VERIF_TOOLS not set (run through ./vcheck C07 <tier>)")
		return
	}
	sizes := []int{8, 9, 100, 70000, 0, 7}
	if !c.Quick() {
		sizes = []int{8, 9, 100, 70000, 65536, 1 << 20, 0, 7}
	}
	size := sizes[c.Free(len(sizes), "size")]
	trs := c07Trailings(c.Quick())
	trName := "none"
	var tr uint64
	if size >= 8 {
		t := trs[c.Free(len(trs), "trailing")]
		trName, tr = t.name, t.val(uint64(size))
	}
	keys := c07ToolKeys(c.Quick())
	key := keys[c.Free(len(keys), "key")]
	file := c07File(size, tr, c.Seed)
	look := 0
	if size >= 18 {
		if look = c.Free(2, "content starts like a bundle-less pattern / like an integrity block"); look == 1 {
			file = c07LookAlike(file)
		}
	}
	class := refib.Classify(file)
	// the -o path may already exist (an earlier, possibly longer, output): the result must
	// still be exactly block || input
	pre := c.Free(3, "pre-existing -o file: none/shorter/longer")
	desc := fmt.Sprintf("size=%d,trailing=%s,key=%s,existing-output=%s", size, trName, key.name, []string{"none", "shorter", "longer"}[pre])
	if look == 1 {
		desc += ",starts-like-an-integrity-block"
	}
	c.State(file, []byte(key.name), []byte{byte(pre)})
	c.Outcome("gen: input " + class)

	dir, err := os.MkdirTemp(os.TempDir(), "c07t-")
	if err != nil {
		c.Cap("cannot create temp dir: " + err.Error())
		return
	}
	defer os.RemoveAll(dir)
	for name, content := range map[string][]byte{"in.wbn": file, "key.pem": []byte(key.keyPEM), "pub.pem": []byte(key.id.PubPEM)} {
		if err := os.WriteFile(filepath.Join(dir, name), content, 0600); err != nil {
			c.Cap("cannot write temp file: " + err.Error())
			return
		}
	}
	if pre > 0 {
		junk := bytes.Repeat([]byte{0xEE}, 10)
		if pre == 2 {
			junk = bytes.Repeat([]byte{0xEE}, size+4096)
		}
		if err := os.WriteFile(filepath.Join(dir, "out.wbn"), junk, 0600); err != nil {
			c.Cap("cannot write temp file: " + err.Error())
			return
		}
	}
	run := func(args ...string) (c07Proc, bool) {
		p := c07RunTool(dir, key.env, args...)
		c.Transitions(1)
		if p.startErr != nil {
			c.Cap("cannot start sign-bundle: " + p.startErr.Error())
			return p, false
		}
		if p.timedOut {
			c.Fail("C07/tool:hang:"+desc+":"+args[0], "sign-bundle did not finish within the deadline", desc+" "+strings.Join(args, " "), "exit", "killed after 120 s")
			return p, false
		}
		return p, true
	}
	out := filepath.Join(dir, "out.wbn")
	p1, ok := run("integrity-block", "-i", "in.wbn", "-o", "out.wbn", "-privateKey", "key.pem")
	if !ok {
		return
	}
	c.Eval()
	obs := func(p c07Proc) string {
		return fmt.Sprintf("exit=%d stdout=%q stderr=%q", p.exit, clipC07(p.stdout), clipC07(p.stderr))
	}
	switch class {
	case refib.TooShort:
		c.Outcome(fmt.Sprintf("too-short input (no trailing length): exit %d, %s (recorded, not judged)", p1.exit, c07Left(out)))
		return
	case refib.HasBlock, refib.Oversize:
		if p1.exit == 0 {
			c.Outcome("VIOLATION " + class + " input signed")
			c.Fail("C07/tool:"+class+":"+desc, "sign-bundle integrity-block exited 0 on a file whose trailing length differs from its size", desc, "non-zero exit status", obs(p1)+" "+c07Left(out))
			return
		}
		c.Outcome(class + " input refused (exit != 0), " + c07Left(out))
		c.Nontrivial([]byte(desc))
		return
	}
	// unsigned input: must be signed
	if p1.exit != 0 {
		c.Fail("C07/tool:refused:"+desc, "sign-bundle integrity-block refused an unsigned file", desc, "exit 0", obs(p1))
		return
	}
	got, rerr := os.ReadFile(out)
	if rerr != nil {
		c.Fail("C07/tool:nooutput:"+desc, "sign-bundle integrity-block exited 0 without an output file", desc, "out.wbn", rerr.Error())
		return
	}
	if !bytes.HasSuffix(got, file) || len(got) <= len(file) {
		c.Fail("C07/tool:layout:"+desc, "output is not a block followed by the untouched input bytes", desc, "... ‖ "+hx(file), hx(got))
		return
	}
	vf, verr := refib.Verify(got)
	if verr != nil {
		c.Fail("C07/tool:verify:"+desc, "signed output does not pass the reference verifier", desc, "valid signed file", verr.Error()+" output="+hx(got))
		return
	}
	if !bytes.Equal(vf.Bundle, file) {
		c.Fail("C07/tool:layout:"+desc, "bytes after the integrity block differ from the input file", desc, hx(file), hx(vf.Bundle))
		return
	}
	wantBlk := refib.NewBlock().Push(refib.Signature{Attrs: []refib.Attr{{Name: refib.KeyAttr, Value: key.id.Pub}}, Sig: vf.Block.Stack[0].Sig})
	wantBytes, _ := wantBlk.Encode()
	if len(vf.Block.Stack) != 1 || !bytes.Equal(vf.BlockBytes, wantBytes) {
		c.Fail("C07/tool:block:"+desc, "integrity block is not [magic, version, [[{ed25519PublicKey: signing key}, signature]]]", desc, hx(wantBytes), hx(vf.BlockBytes))
		return
	}
	wantID := refib.WebBundleID(key.id.Pub)
	if ids := c07IDLines(p1.stdout); len(ids) != 1 || ids[0] != wantID {
		c.Fail("C07/tool:id:"+desc, "printed Web Bundle ID differs from the reference", desc, wantID, fmt.Sprintf("%q", p1.stdout))
		return
	}
	for _, a := range [][]string{{"dump-id", "-privateKey", "key.pem"}, {"dump-id", "-publicKey", "pub.pem"}} {
		pd, ok := run(a...)
		if !ok {
			return
		}
		if ids := c07IDLines(pd.stdout); pd.exit != 0 || len(ids) != 1 || ids[0] != wantID {
			c.Fail("C07/tool:dump-id:"+a[1]+":"+key.name, "sign-bundle dump-id output differs from the reference Web Bundle ID", strings.Join(a, " ")+" ("+key.name+")", wantID, obs(pd))
			return
		}
	}
	// second signing of the signed file: must be refused
	out2 := filepath.Join(dir, "out2.wbn")
	p2, ok := run("integrity-block", "-i", "out.wbn", "-o", "out2.wbn", "-privateKey", "key.pem")
	if !ok {
		return
	}
	if refib.Classify(got) != refib.HasBlock {
		panic("c07: signed file not classified as carrying a block")
	}
	if p2.exit == 0 {
		c.Outcome("VIOLATION signed file signed again")
		c.Fail("C07/tool:twice:"+desc, "sign-bundle integrity-block exited 0 on a file that already carries an integrity block", desc+" (output of the first signing as input)", "non-zero exit status", obs(p2)+" "+c07Left(out2))
		return
	}
	c.Outcome("unsigned input signed, output == block ‖ input, verifies, IDs agree; second signing refused, " + c07Left(out2))
	c.Sample(desc + " -> " + hx(vf.BlockBytes))
	c.Nontrivial([]byte(desc))
}

func clipC07(s string) string {
	if len(s) > 300 {
		return s[:300] + "..."
	}
	return s
}

func init() {
	lib := &mc.Harness{
		Name: "C07/lib",
		Mode: "explicit-state search over signing histories (state = block bytes after each call)",
		Bound: func(tier string) int {
			return 2
		},
		Run: c07LibRun,
	}
	fn := &mc.Harness{
		Name: "C07/functions",
		Bound: func(tier string) int {
			if tier == "quick" {
				return 2
			}
			return 3
		},
		Run: c07FuncRun,
	}
	tool := &mc.Harness{
		Name: "C07/tool",
		Mode: "choice-tree DFS over input files x keys; each execution is a short history of tool processes (sign, dump-id x2, sign again)",
		Run:  c07ToolRun,
	}
	register(&mc.Property{
		ID:    "C07",
		Level: "model_checking",
		Rule: "C07/lib: every history of 1..3 SignAndAddNewSignature calls on one block; per call the signing pair (3 fixture Ed25519 pairs, Free) x strategy (9: matching, public key of another pair, 4 single-bit signature flips, 63-byte signature, Sign error, GetPublicKey error; Dev) x attributes map (key entry + every subset of <=2 of 3 (quick) / 5 (thorough) extra entries in every insertion order = 25 / 71 maps; Dev), at most 2 non-default strategy/attribute choices per history. " +
			"C07/functions: GenerateDataToBeSigned (5 hash lengths x 3 block byte strings x 72 maps), ComputeWebBundleSha512 (8 sizes x offsets {0,1,8,size-1,size} x 3 start positions x 3 reader kinds), CborBytes of constructed blocks (3 magics x 3 versions x 0..3 signatures x 71 maps x 5 signature lengths, deviation bound 2/3), IDs of 6 keys, ObtainIntegrityBlock on temp files (5 sizes x 16 trailing lengths). " +
			"C07/tool: sizes {8,9,100,70000 | thorough +65536, 2^20} x trailing length {size, size-1, 0, size+1, 2^63-1, 2^63, 2^63+size, 2^64-1 | thorough +5} x keys {Ed1 PKCS#8, Ed1 encrypted PKCS#8, Ed2 | thorough +Ed3}, plus sizes 0 and 7 (recorded only). " +
			"Non-trivial: a history with a refusal, >=2 calls or extra attributes; a function case compared byte-for-byte; a tool case that was judged (signed+verified or refusal demanded).",
		Assumptions: []string{
			"refib / refcbor (independent models written from explainers/integrity-signature.md, the property text and RFC 8949) and crypto/ed25519, crypto/sha512 of the standard library are correct",
			"three fixture key pairs and one seeded content pattern stand for all keys / contents; signatures are verified, never compared with expected bytes",
			"an error return / non-zero exit status is the observable for 'returns an error and adds nothing'; an output file left behind by a refused tool run is recorded, not judged",
		},
		Harnesses: []*mc.Harness{lib, fn, tool},
		Guard: func(s map[string]*mc.Stats) error {
			l, f, t := s["C07/lib"], s["C07/functions"], s["C07/tool"]
			if l == nil || f == nil || t == nil {
				return fmt.Errorf("a harness did not run")
			}
			if l.Outcomes["gen: step expects acceptance"] < 1000 || l.Outcomes["gen: step expects refusal"] < 1000 {
				return fmt.Errorf("signing histories too thin: accept=%d refuse=%d", l.Outcomes["gen: step expects acceptance"], l.Outcomes["gen: step expects refusal"])
			}
			if f.Executions < 1000 {
				return fmt.Errorf("function sweep too small")
			}
			if len(t.Caps) > 0 {
				return fmt.Errorf("tool harness could not run: %v", t.Caps)
			}
			for _, cl := range []string{refib.Unsigned, refib.HasBlock, refib.Oversize} {
				if t.Outcomes["gen: input "+cl] == 0 || f.Outcomes["gen: input "+cl] == 0 {
					return fmt.Errorf("no %s input generated", cl)
				}
			}
			return nil
		},
	})
}
