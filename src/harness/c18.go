package main

import (
	"bufio"
	"bytes"
	"crypto/ed25519"
	"crypto/x509"
	"errors"
	"fmt"
	"io"
	"net/http"
	"net/url"
	"os"
	"os/exec"
	"regexp"
	"sort"
	"strconv"
	"strings"
	"sync"
	"time"

	"github.com/WICG/webpackage/go/bundle"
	"github.com/WICG/webpackage/go/bundle/signature"
	bversion "github.com/WICG/webpackage/go/bundle/version"
	"github.com/WICG/webpackage/go/integrityblock"
	"github.com/WICG/webpackage/go/integrityblock/webbundleid"
	"github.com/WICG/webpackage/go/internal/cbor"
	"github.com/WICG/webpackage/go/internal/signingalgorithm"
	"github.com/WICG/webpackage/go/signedexchange"
	"github.com/WICG/webpackage/go/signedexchange/certurl"
	"github.com/WICG/webpackage/go/signedexchange/mice"
	"github.com/WICG/webpackage/go/signedexchange/structuredheader"
	sxgversion "github.com/WICG/webpackage/go/signedexchange/version"
	"github.com/WICG/webpackage/go/signedexchange/zverif/fixtures"
	"github.com/WICG/webpackage/go/signedexchange/zverif/mc"
)

// ---------------------------------------------------------------------------
// Shared read-only inputs (built once, sequentially, before any exploration).
// Go maps in these inputs hold at most one user entry so that the sequence of
// hook sites of a call is the same on every run.
// ---------------------------------------------------------------------------

type c18World struct {
	bundleB1, bundleB2 *bundle.Bundle
	resp               bundle.Response
	ex                 map[sxgversion.Version]*signedexchange.Exchange
	signer             *signedexchange.Signer
	subset             *signature.SignedSubset
	chain              certurl.CertChain
	ib                 *integrityblock.IntegrityBlock
	attrs              integrityblock.SignatureAttributesMap
	hash               []byte
	ibBytes            []byte
	keyBuf             []byte // 64-byte array; the key is its first 32 bytes, the rest are sentinels
	key                ed25519.PublicKey
	pl                 structuredheader.ParameterisedList
	ll                 structuredheader.ListOfLists
	payload            []byte
}

func c18MustURL(s string) *url.URL {
	u, err := url.Parse(s)
	if err != nil {
		panic(err)
	}
	return u
}

var c18Date = time.Unix(1700000000, 0)

func c18NewWorld() *c18World { return c18BuildWorld(false) }

// c18BuildWorld(cold=true) builds the same shared inputs WITHOUT calling any serializer of the repository while
// doing so (the Signature header value and the integrity-block bytes are literals, payloads stay un-encoded), so that
// the first serializer call of the process can be made by several goroutines at once (C18/races, cold starts).
func c18BuildWorld(cold bool) *c18World {
	w := &c18World{}
	mkBundle := func(ver bversion.Version) *bundle.Bundle {
		b := &bundle.Bundle{Version: ver, PrimaryURL: c18MustURL("https://a.test/")}
		if ver == bversion.VersionB1 {
			b.ManifestURL = c18MustURL("https://a.test/manifest.json")
		}
		// (the third URL carries a fragment and credentials: the writer takes them, and a serializer that
		// "normalises" its input in place shows in the snapshot below)
		for i, u := range []string{"https://a.test/", "https://a.test/second?x=1", "https://user:pw@a.test/doc.html?q=1#section-2"} {
			b.Exchanges = append(b.Exchanges, &bundle.Exchange{
				Request:  bundle.Request{URL: c18MustURL(u)},
				Response: bundle.Response{Status: 200 + i, Header: http.Header{"Content-Type": {"text/plain"}}, Body: []byte(fmt.Sprintf("body-%d-%s", i, strings.Repeat("x", 30*i)))},
			})
		}
		return b
	}
	w.bundleB1, w.bundleB2 = mkBundle(bversion.VersionB1), mkBundle(bversion.VersionB2)
	w.resp = bundle.Response{Status: 200, Header: http.Header{"Content-Type": {"text/html"}}, Body: []byte("hello")}
	w.chain, _ = certurl.NewCertChain([]*x509.Certificate{fixtures.A.Leaf, fixtures.A.CA}, []byte("ocsp-response"), []byte("sct-list"))
	w.signer = &signedexchange.Signer{Date: c18Date, Expires: c18Date.Add(time.Hour), Certs: []*x509.Certificate{fixtures.A.Leaf},
		CertUrl: c18MustURL("https://a.test/cert.cbor"), ValidityUrl: c18MustURL("https://a.test/validity"), PrivKey: fixtures.A.Key,
		Algorithm: &signingalgorithm.MockSigningAlgorithm{}}
	w.ex = map[sxgversion.Version]*signedexchange.Exchange{}
	for _, v := range sxgversion.AllVersions {
		reqH := http.Header{}
		if v != sxgversion.Version1b3 {
			reqH.Set("Accept", "*/*")
		}
		e := signedexchange.NewExchange(v, "https://a.test/page", http.MethodGet, reqH, 200, http.Header{"Content-Type": {"text/html"}}, []byte("payload payload payload payload payload"))
		if cold {
			e.SignatureHeaderValue = `label; sig=*AAEC*; integrity="digest/mi-sha256-03"; date=1700000000; expires=1700003600`
			w.ex[v] = e
			continue
		}
		if err := e.MiEncodePayload(16); err != nil {
			panic(err)
		}
		if err := e.AddSignatureHeader(w.signer); err != nil {
			panic(err)
		}
		w.ex[v] = e
	}
	w.subset = &signature.SignedSubset{ValidityUrl: c18MustURL("https://a.test/validity"), AuthSha256: bytes.Repeat([]byte{7}, 32), Date: c18Date, Expires: c18Date.Add(time.Hour),
		SubsetHashes: map[string]*signature.ResponseHashes{"https://a.test/": {VariantsValue: nil, Hashes: []*signature.ResourceIntegrity{{HeaderSha256: bytes.Repeat([]byte{9}, 32), PayloadIntegrityHeader: "digest/mi-sha256-03"}}}}}
	w.keyBuf = make([]byte, 64)
	copy(w.keyBuf, fixtures.Ed1.Pub)
	for i := 32; i < 64; i++ {
		w.keyBuf[i] = 0xEE
	}
	w.key = ed25519.PublicKey(w.keyBuf[:32])
	w.attrs = integrityblock.SignatureAttributesMap{integrityblock.Ed25519publicKeyAttributeName: []byte(fixtures.Ed1.Pub)}
	w.ib = &integrityblock.IntegrityBlock{Magic: integrityblock.IntegrityBlockMagic, Version: integrityblock.VersionB1,
		SignatureStack: []*integrityblock.IntegritySignature{{SignatureAttributes: integrityblock.SignatureAttributesMap{integrityblock.Ed25519publicKeyAttributeName: []byte(fixtures.Ed2.Pub)}, Signature: bytes.Repeat([]byte{5}, 64)}}}
	w.hash = bytes.Repeat([]byte{3}, 64)
	if cold {
		w.ibBytes = []byte{0x83, 0x41, 0x00, 0x41, 0x01, 0x80}
	} else {
		w.ibBytes, _ = w.ib.CborBytes()
	}
	w.pl = structuredheader.ParameterisedList{{Label: "label", Params: structuredheader.Parameters{"sig": []byte("sig-bytes")}}, {Label: "other", Params: structuredheader.Parameters{"n": int64(5)}}}
	w.ll = structuredheader.ListOfLists{{structuredheader.Token("Accept-Language"), "en", "fr"}, {int64(1), []byte{1, 2}}}
	pl := make([]byte, 40, 96)
	copy(pl, []byte("0123456789abcdefghijklmnopqrstuvwxyzABCD"))
	w.payload = pl
	return w
}

// A serializer call on the shared world; out is a harness-owned writer (calls
// that return bytes write them to out themselves).
type c18Ser struct {
	name string
	run  func(w *c18World, out io.Writer) error
}

func c18WriteBytes(out io.Writer, b []byte, err error) error {
	if err != nil {
		return err
	}
	_, err = out.Write(b)
	return err
}

func c18Tail(b []byte, n int) string {
	if len(b) < n {
		return hx(b)
	}
	return hx(b[n:])
}

var c18Sers = []c18Ser{
	{"Bundle.WriteTo(b1)", func(w *c18World, out io.Writer) error { _, err := w.bundleB1.WriteTo(out); return err }},
	{"Bundle.WriteTo(b2)", func(w *c18World, out io.Writer) error { _, err := w.bundleB2.WriteTo(out); return err }},
	{"Response.EncodeHeader", func(w *c18World, out io.Writer) error {
		b, err := w.resp.EncodeHeader()
		return c18WriteBytes(out, b, err)
	}},
	{"Exchange.Write(1b1)", func(w *c18World, out io.Writer) error { return w.ex[sxgversion.Version1b1].Write(out) }},
	{"Exchange.Write(1b3)", func(w *c18World, out io.Writer) error { return w.ex[sxgversion.Version1b3].Write(out) }},
	{"DumpExchangeHeaders(1b2)", func(w *c18World, out io.Writer) error { return w.ex[sxgversion.Version1b2].DumpExchangeHeaders(out) }},
	{"DumpSignedMessage(1b1)", func(w *c18World, out io.Writer) error {
		return w.ex[sxgversion.Version1b1].DumpSignedMessage(out, w.signer)
	}},
	{"DumpSignedMessage(1b3)", func(w *c18World, out io.Writer) error {
		return w.ex[sxgversion.Version1b3].DumpSignedMessage(out, w.signer)
	}},
	{"SignedSubset.Encode", func(w *c18World, out io.Writer) error { b, err := w.subset.Encode(); return c18WriteBytes(out, b, err) }},
	{"CertChain.Write", func(w *c18World, out io.Writer) error { return w.chain.Write(out) }},
	{"IntegrityBlock.CborBytes", func(w *c18World, out io.Writer) error { b, err := w.ib.CborBytes(); return c18WriteBytes(out, b, err) }},
	{"GenerateDataToBeSigned", func(w *c18World, out io.Writer) error {
		b, err := integrityblock.GenerateDataToBeSigned(w.hash, w.ibBytes, w.attrs)
		return c18WriteBytes(out, b, err)
	}},
	{"GetWebBundleId", func(w *c18World, out io.Writer) error {
		_, err := out.Write([]byte(webbundleid.GetWebBundleId(w.key)))
		return err
	}},
	{"ParameterisedList.String", func(w *c18World, out io.Writer) error {
		s, err := w.pl.String()
		return c18WriteBytes(out, []byte(s), err)
	}},
	{"ListOfLists.String", func(w *c18World, out io.Writer) error {
		s, err := w.ll.String()
		return c18WriteBytes(out, []byte(s), err)
	}},
	{"mice.Encode(draft02)", func(w *c18World, out io.Writer) error {
		d, err := mice.Draft02Encoding.Encode(out, w.payload, 16)
		return c18WriteBytes(out, []byte(d), err)
	}},
	{"mice.Encode(draft03)", func(w *c18World, out io.Writer) error {
		d, err := mice.Draft03Encoding.Encode(out, w.payload, 16)
		return c18WriteBytes(out, []byte(d), err)
	}},
	{"cbor.EncodeMap", func(w *c18World, out io.Writer) error {
		return cbor.NewEncoder(out).EncodeMap([]*cbor.MapEntryEncoder{
			cbor.GenerateMapEntry(func(k, v *cbor.Encoder) { k.EncodeTextString("bb"); v.EncodeUint(1 << 40) }),
			cbor.GenerateMapEntry(func(k, v *cbor.Encoder) { k.EncodeTextString("a"); v.EncodeBool(true) }),
		})
	}},
}

var (
	c18Once  sync.Once
	c18W     *c18World
	c18Solo  [][]byte
	c18Input []byte // snapshot of every input byte range a serializer must not write to
)

func c18Snapshot(w *c18World) []byte {
	var b []byte
	b = append(b, w.keyBuf...)
	b = append(b, w.payload[:cap(w.payload)]...)
	b = append(b, w.hash...)
	b = append(b, w.ibBytes...)
	b = append(b, fixtures.A.Leaf.Raw...)
	b = append(b, bversion.HeaderMagicBytesB1[:cap(bversion.HeaderMagicBytesB1)]...)
	b = append(b, bversion.HeaderMagicBytesB2[:cap(bversion.HeaderMagicBytesB2)]...)
	b = append(b, bversion.VersionMagicBytesB1...)
	b = append(b, bversion.VersionMagicBytesB2...)
	b = append(b, integrityblock.IntegrityBlockMagic[:cap(integrityblock.IntegrityBlockMagic)]...)
	b = append(b, integrityblock.VersionB1[:cap(integrityblock.VersionB1)]...)
	for _, e := range w.bundleB1.Exchanges {
		b = append(b, e.Response.Body...)
	}
	for _, v := range sxgversion.AllVersions {
		b = append(b, w.ex[v].Payload...)
		b = append(b, w.ex[v].SignatureHeaderValue...)
	}
	// the structured inputs, field by field: URLs (every component), status, header maps (sorted), bodies,
	// certificate chain blobs, signer fields
	dumpURL := func(u *url.URL) {
		if u == nil {
			b = append(b, "<nil>"...)
			return
		}
		b = append(b, fmt.Sprintf("%s|%s|%s|%s|%s|%s|%s|%s|%v|%v;", u.Scheme, u.Opaque, u.User.String(), u.Host, u.Path, u.RawPath, u.RawQuery, u.Fragment+"/"+u.RawFragment, u.ForceQuery, u.OmitHost)...)
	}
	dumpHdr := func(h http.Header) {
		var ks []string
		for k := range h {
			ks = append(ks, k)
		}
		sort.Strings(ks)
		for _, k := range ks {
			b = append(b, fmt.Sprintf("%q=%q;", k, h[k])...)
		}
	}
	for _, bn := range []*bundle.Bundle{w.bundleB1, w.bundleB2} {
		dumpURL(bn.PrimaryURL)
		dumpURL(bn.ManifestURL)
		b = append(b, fmt.Sprintf("%s n=%d;", bn.Version, len(bn.Exchanges))...)
		for _, e := range bn.Exchanges {
			dumpURL(e.Request.URL)
			dumpHdr(e.Request.Header)
			b = append(b, fmt.Sprintf("%d;", e.Response.Status)...)
			dumpHdr(e.Response.Header)
			b = append(b, e.Response.Body...)
		}
	}
	b = append(b, fmt.Sprintf("%d;", w.resp.Status)...)
	dumpHdr(w.resp.Header)
	b = append(b, w.resp.Body...)
	for _, v := range sxgversion.AllVersions {
		e := w.ex[v]
		b = append(b, fmt.Sprintf("%s|%s|%s|%d;", e.Version, e.RequestURI, e.RequestMethod, e.ResponseStatus)...)
		dumpHdr(e.RequestHeaders)
		dumpHdr(e.ResponseHeaders)
	}
	for _, ac := range w.chain {
		b = append(b, ac.Cert.Raw...)
		b = append(b, ac.OCSPResponse...)
		b = append(b, ac.SCTList...)
	}
	if w.signer != nil {
		dumpURL(w.signer.CertUrl)
		dumpURL(w.signer.ValidityUrl)
		b = append(b, fmt.Sprintf("%d|%d|%d;", w.signer.Date.UnixNano(), w.signer.Expires.UnixNano(), len(w.signer.Certs))...)
	}
	return b
}

func c18Init() {
	c18Once.Do(func() {
		c18W = c18NewWorld()
		c18Input = c18Snapshot(c18W)
		for _, s := range c18Sers {
			var buf bytes.Buffer
			if err := s.run(c18W, &buf); err != nil {
				panic("c18: solo run of " + s.name + " failed: " + err.Error())
			}
			c18Solo = append(c18Solo, append([]byte{}, buf.Bytes()...))
		}
		// restore what a defective serializer may have overwritten during the solo runs
		// (the history harness judges that separately on a fresh world)
	})
}

// yieldWriter yields to the scheduler before copying p, so that a buffer shared
// between threads can be overwritten in between.
type c18YieldWriter struct {
	s   *mc.Sched
	buf bytes.Buffer
}

func (y *c18YieldWriter) Write(p []byte) (int, error) {
	y.s.Yield("writer.Write")
	return y.buf.Write(p)
}

// c18CoreSers: indices of the serializer calls used for the 3-thread and 2-call scenarios.
func c18CoreSers() []int {
	var out []int
	for i, s := range c18Sers {
		switch s.name {
		case "Bundle.WriteTo(b1)", "Bundle.WriteTo(b2)", "Exchange.Write(1b3)", "DumpSignedMessage(1b1)", "CertChain.Write", "IntegrityBlock.CborBytes", "mice.Encode(draft03)", "cbor.EncodeMap":
			out = append(out, i)
		}
	}
	return out
}

// c18FailingWriter accepts Write calls until the failAt-th, which fails (as do all later ones).
type c18FailingWriter struct {
	calls, failAt int
}

func (f *c18FailingWriter) Write(p []byte) (int, error) {
	f.calls++
	if f.calls >= f.failAt {
		return 0, errors.New("c18: injected write failure")
	}
	return len(p), nil
}

// c18Sched is the scheduler of the execution in progress (one per process: schedule
// exploration runs in single-threaded worker subprocesses).
var c18Sched *mc.Sched

func c18Hook(site string) {
	if s := c18Sched; s != nil {
		s.Yield(site)
	}
}

func init() {
	c18InstallHook(c18Hook)

	// ---- (1) permutations of map insertion order, repeated calls ----
	type permCase struct {
		name string
		n    int // number of map entries
		ser  func(order []int) ([]byte, error)
	}
	names := []string{"Content-Type", "x-b", "Accept", "zz-long-header-name-aaaaaaaaaaaaaaaa"}
	vals := []string{"text/html", "1", "*/*", "v"}
	hdr := func(order []int) http.Header {
		h := http.Header{}
		for _, i := range order {
			h.Add(names[i], vals[i])
		}
		return h
	}
	permCases := []permCase{
		{"Response.EncodeHeader", 4, func(o []int) ([]byte, error) {
			return bundle.Response{Status: 200, Header: hdr(o)}.EncodeHeader()
		}},
		{"Bundle.WriteTo(b2)", 3, func(o []int) ([]byte, error) {
			b := &bundle.Bundle{Version: bversion.VersionB2, Exchanges: []*bundle.Exchange{{Request: bundle.Request{URL: c18MustURL("https://a.test/")}, Response: bundle.Response{Status: 200, Header: hdr(o), Body: []byte("x")}}}}
			var buf bytes.Buffer
			_, err := b.WriteTo(&buf)
			return buf.Bytes(), err
		}},
		{"Bundle.WriteTo(b1) exchange order fixed, index map of 3 URLs", 3, func(o []int) ([]byte, error) {
			b := &bundle.Bundle{Version: bversion.VersionB1, PrimaryURL: c18MustURL("https://a.test/0")}
			for i := 0; i < 3; i++ {
				b.Exchanges = append(b.Exchanges, &bundle.Exchange{Request: bundle.Request{URL: c18MustURL("https://a.test/" + strconv.Itoa(i))}, Response: bundle.Response{Status: 200, Header: hdr(o), Body: []byte{byte(i)}}})
			}
			var buf bytes.Buffer
			_, err := b.WriteTo(&buf)
			return buf.Bytes(), err
		}},
		{"DumpExchangeHeaders(1b1) request+response headers", 4, func(o []int) ([]byte, error) {
			e := signedexchange.NewExchange(sxgversion.Version1b1, "https://a.test/", "GET", hdr(o), 200, hdr(o), nil)
			var buf bytes.Buffer
			err := e.DumpExchangeHeaders(&buf)
			return buf.Bytes(), err
		}},
		{"DumpSignedMessage(1b3)+Write", 4, func(o []int) ([]byte, error) {
			e := signedexchange.NewExchange(sxgversion.Version1b3, "https://a.test/", "GET", nil, 200, hdr(o), []byte("p"))
			c18Init()
			var buf bytes.Buffer
			if err := e.DumpSignedMessage(&buf, c18W.signer); err != nil {
				return nil, err
			}
			e.SignatureHeaderValue = "sig"
			err := e.Write(&buf)
			return buf.Bytes(), err
		}},
		{"ParameterisedIdentifier.String", 4, func(o []int) ([]byte, error) {
			keys := []structuredheader.Key{"sig", "a", "validity-url", "b-2"}
			items := []structuredheader.Item{[]byte("s"), int64(-3), "https://a.test/v", structuredheader.Token("tok")}
			p := structuredheader.Parameters{}
			for _, i := range o {
				p[keys[i]] = items[i]
			}
			s, err := (&structuredheader.ParameterisedIdentifier{Label: "l", Params: p}).String()
			return []byte(s), err
		}},
		{"integrityblock attributes: GenerateDataToBeSigned+CborBytes", 4, func(o []int) ([]byte, error) {
			keys := []string{"ed25519PublicKey", "a", "zzzzzzzzzzzzzzzzzzzzzzzzzzzzzz", "b"}
			m := integrityblock.SignatureAttributesMap{}
			for _, i := range o {
				m[keys[i]] = []byte{byte(i), 2}
			}
			d, err := integrityblock.GenerateDataToBeSigned([]byte("hash"), []byte("block"), m)
			if err != nil {
				return nil, err
			}
			ib := &integrityblock.IntegrityBlock{Magic: []byte("m"), Version: []byte("v"), SignatureStack: []*integrityblock.IntegritySignature{{SignatureAttributes: m, Signature: []byte("s")}}}
			b, err := ib.CborBytes()
			return append(d, b...), err
		}},
		{"SignedSubset.Encode", 4, func(o []int) ([]byte, error) {
			urls := []string{"https://a.test/", "https://a.test/b", "https://a.test/aaaaaaaaaaaaaaaaaaaaaaaaaaaaaa", "https://a.test/c"}
			m := map[string]*signature.ResponseHashes{}
			for _, i := range o {
				m[urls[i]] = &signature.ResponseHashes{Hashes: []*signature.ResourceIntegrity{{HeaderSha256: []byte{byte(i)}, PayloadIntegrityHeader: "digest/mi-sha256-03"}}}
			}
			return (&signature.SignedSubset{ValidityUrl: c18MustURL("https://a.test/v"), AuthSha256: []byte{1}, Date: c18Date, Expires: c18Date, SubsetHashes: m}).Encode()
		}},
		{"cbor.EncodeMap entry list order", 4, func(o []int) ([]byte, error) {
			ks := []string{"b", "aa", "a", "c"}
			var mes []*cbor.MapEntryEncoder
			for _, i := range o {
				i := i
				mes = append(mes, cbor.GenerateMapEntry(func(k, v *cbor.Encoder) { k.EncodeTextString(ks[i]); v.EncodeUint(uint64(i)) }))
			}
			var buf bytes.Buffer
			err := cbor.NewEncoder(&buf).EncodeMap(mes)
			return buf.Bytes(), err
		}},
	}
	// long sibling keys: URLs / map keys that agree in their first 70, 130 or 300 bytes and differ only behind that
	// (deep paths of one directory).  A key sort that looks at a bounded prefix leaves such keys in the order they
	// arrived in - the insertion order here, Go's randomised map iteration order inside the bundle writer
	longSib := func(prefixLen, i int) string {
		return "https://a.test/" + strings.Repeat("d", prefixLen-len("https://a.test/")) + []string{"/b.html", "/a.html", "/c.css", "/aa.js"}[i]
	}
	for _, pl := range []int{70, 130, 300} {
		pl := pl
		permCases = append(permCases,
			permCase{fmt.Sprintf("cbor.EncodeMap entry list order, keys sharing their first %d bytes", pl), 4, func(o []int) ([]byte, error) {
				var mes []*cbor.MapEntryEncoder
				for _, i := range o {
					i := i
					mes = append(mes, cbor.GenerateMapEntry(func(k, v *cbor.Encoder) { k.EncodeTextString(longSib(pl, i)); v.EncodeUint(uint64(i)) }))
				}
				var buf bytes.Buffer
				err := cbor.NewEncoder(&buf).EncodeMap(mes)
				return buf.Bytes(), err
			}},
			permCase{fmt.Sprintf("Bundle.WriteTo(b2) exchange order fixed, 4 sibling URLs sharing their first %d bytes", pl), 3, func(o []int) ([]byte, error) {
				b := &bundle.Bundle{Version: bversion.VersionB2}
				for i := 0; i < 4; i++ {
					b.Exchanges = append(b.Exchanges, &bundle.Exchange{Request: bundle.Request{URL: c18MustURL(longSib(pl, i))}, Response: bundle.Response{Status: 200, Header: hdr(o), Body: []byte{byte(i)}}})
				}
				var buf bytes.Buffer
				_, err := b.WriteTo(&buf)
				return buf.Bytes(), err
			}},
			permCase{fmt.Sprintf("SignedSubset.Encode, 4 sibling URLs sharing their first %d bytes", pl), 4, func(o []int) ([]byte, error) {
				m := map[string]*signature.ResponseHashes{}
				for _, i := range o {
					m[longSib(pl, i)] = &signature.ResponseHashes{Hashes: []*signature.ResourceIntegrity{{HeaderSha256: []byte{byte(i)}, PayloadIntegrityHeader: "digest/mi-sha256-03"}}}
				}
				return (&signature.SignedSubset{ValidityUrl: c18MustURL("https://a.test/v"), AuthSha256: []byte{1}, Date: c18Date, Expires: c18Date, SubsetHashes: m}).Encode()
			}})
	}
	// header maps holding the SAME field name under several case spellings (only possible by direct
	// map assignment): whatever the serializer does with them - refuse, or fold them - it must do
	// the same every time and for every insertion order
	caseNames := []string{"X-Variant", "x-variant", "X-VARIANT", "Content-Type"}
	caseHdr := func(order []int) http.Header {
		h := http.Header{}
		for _, i := range order {
			h[caseNames[i]] = []string{vals[i]}
		}
		return h
	}
	permCases = append(permCases,
		permCase{"DumpExchangeHeaders(1b3) names differing only in case", 4, func(o []int) ([]byte, error) {
			e := signedexchange.NewExchange(sxgversion.Version1b3, "https://a.test/", "GET", nil, 200, caseHdr(o), nil)
			var buf bytes.Buffer
			err := e.DumpExchangeHeaders(&buf)
			return buf.Bytes(), err
		}},
		permCase{"DumpExchangeHeaders(1b1) request names differing only in case", 4, func(o []int) ([]byte, error) {
			e := signedexchange.NewExchange(sxgversion.Version1b1, "https://a.test/", "GET", caseHdr(o), 200, http.Header{}, nil)
			var buf bytes.Buffer
			err := e.DumpExchangeHeaders(&buf)
			return buf.Bytes(), err
		}},
		permCase{"Response.EncodeHeader names differing only in case", 4, func(o []int) ([]byte, error) {
			return bundle.Response{Status: 200, Header: caseHdr(o)}.EncodeHeader()
		}},
	)
	permH := &mc.Harness{
		Name:      "C18/permutations",
		NoConfirm: true,
		Run: func(c *mc.Ctx) {
			pc := permCases[c.Free(len(permCases), "serializer")]
			k := 1 + c.Free(pc.n, "entries") // 1..n entries
			ps := perms(k)
			order := ps[c.Free(len(ps), "insertion-order")]
			ident := ps[0]
			// (these inputs may be refused; then they must be refused identically every time)
			mayFail := strings.Contains(pc.name, "differing only in case")
			base, berr := pc.ser(ident)
			if berr != nil && !mayFail {
				c.Fail("C18/perm:"+pc.name+":baseline", "serializer failed", pc.name, "nil", berr.Error())
				return
			}
			if berr != nil {
				base = []byte("error: " + berr.Error()) // a refusal is an outcome too: it must be the same every time
			}
			base = append([]byte{}, base...)
			reps := 6
			if mayFail {
				reps = 24
			}
			for rep := 0; rep < reps; rep++ {
				got, err := pc.ser(order)
				c.Transitions(1)
				if err != nil && mayFail {
					got, err = []byte("error: "+err.Error()), nil
				}
				if err != nil || !bytes.Equal(got, base) {
					c.Outcome("DIFFERENT BYTES")
					c.Fail(fmt.Sprintf("C18/perm:%s:order=%v", pc.name, order), "output depends on map insertion order / differs between repeated calls", fmt.Sprintf("%s with %d entries inserted in order %v (repetition)", pc.name, k, order), hx(base), fmt.Sprintf("%s err=%v", hx(got), err))
					return
				}
			}
			c.Eval()
			c.State([]byte(pc.name), base)
			c.Sample(fmt.Sprintf("%s entries=%d order=%v -> %s", pc.name, k, order, hx(base)))
			if k >= 2 {
				c.Nontrivial([]byte(pc.name), []byte(fmt.Sprint(order)))
			}
			c.Outcome(fmt.Sprintf("same bytes, %d entries", k))
		},
	}

	// ---- (2) histories: call sequences on ONE shared world with input mutations ----
	type op struct {
		name string
		ser  int               // index in c18Sers, or -1 for a mutation
		mut  func(w *c18World) // applied to the shared world
		// failAt > 0: the destination fails at this Write call (1-based)
		failAt int
	}
	var menu []op
	for i, s := range c18Sers {
		menu = append(menu, op{name: s.name, ser: i})
	}
	muts := []op{
		{name: "mutate: resp.Status=404, bundle exchange 0 status=404", ser: -1, mut: func(w *c18World) {
			w.resp.Status = 404
			w.bundleB1.Exchanges[0].Response.Status = 404
			w.bundleB2.Exchanges[0].Response.Status = 404
		}},
		{name: "mutate: add header X-Added to resp / bundles / exchanges", ser: -1, mut: func(w *c18World) {
			w.resp.Header.Set("X-Added", "1")
			w.bundleB2.Exchanges[1].Response.Header.Set("X-Added", "1")
			w.bundleB1.Exchanges[1].Response.Header.Set("X-Added", "1")
			for _, v := range sxgversion.AllVersions {
				w.ex[v].ResponseHeaders.Set("X-Added", "1")
			}
		}},
		{name: "mutate: header VALUES changed (same names, same count)", ser: -1, mut: func(w *c18World) {
			w.resp.Header.Set("Content-Type", "application/octet-stream")
			w.bundleB1.Exchanges[0].Response.Header.Set("Content-Type", "image/png")
			w.bundleB2.Exchanges[0].Response.Header.Set("Content-Type", "image/png")
			for _, v := range sxgversion.AllVersions {
				w.ex[v].ResponseHeaders.Set("Content-Type", "image/png")
			}
		}},
		{name: "mutate: payload[0]=#, subset date+1, attrs value changed, pl param changed", ser: -1, mut: func(w *c18World) {
			// (every mutation is idempotent: applying it twice leaves the same logical state,
			// which the injectivity oracle below relies on)
			w.payload[0] = '#'
			w.subset.Date = c18Date.Add(time.Second)
			w.attrs[integrityblock.Ed25519publicKeyAttributeName] = []byte(fixtures.Ed3.Pub)
			w.pl[0].Params["sig"] = []byte("other")
			w.ib.SignatureStack[0].Signature = bytes.Repeat([]byte{6}, 64)
		}},
	}
	muts = append(muts, op{name: "mutate: cert chain rebuilt over the same certificates with a refreshed OCSP response and no SCT list", ser: -1, mut: func(w *c18World) {
		w.chain, _ = certurl.NewCertChain([]*x509.Certificate{fixtures.A.Leaf, fixtures.A.CA}, []byte("ocsp-response-refreshed"), nil)
	}})
	muts = append(muts, op{name: "mutate: cert chain ocsp bytes changed in place (same slice, same length)", ser: -1, mut: func(w *c18World) {
		copy(w.chain[0].OCSPResponse, "OCSP") // idempotent
	}})
	menu = append(menu, muts...)
	// calls whose destination fails at the k-th Write (a client going away while an artifact is
	// served): the failed call itself is C19's business; here it is a history step after which
	// every other call must still produce its usual bytes
	for _, name := range []string{"CertChain.Write", "DumpExchangeHeaders(1b2)", "Bundle.WriteTo(b2)", "Exchange.Write(1b3)", "DumpSignedMessage(1b3)"} {
		for _, k := range []int{0, 2, 4, 6, 9} {
			for i := range c18Sers {
				if c18Sers[i].name == name {
					menu = append(menu, op{name: fmt.Sprintf("%s failing at write #%d", name, k), ser: i, failAt: k + 1})
				}
			}
		}
	}
	histH := &mc.Harness{
		Name:      "C18/histories",
		NoConfirm: true,
		Mode:      "explicit-state search over call histories on one shared world (state = logical inputs + every output returned so far)",
		Run: func(c *mc.Ctx) {
			depth := c.Pick(2, 3)
			shared := c18NewWorld()
			applied := []int{} // mutations applied so far (indices into muts)
			type kept struct {
				name string
				got  []byte // as returned (may alias internal buffers)
				snap []byte
			}
			var retained []kept
			c18Init()
			lastOut := map[int]c18Last{}
			for i := range c18Sers {
				// the solo output in the initial logical state is the implicit predecessor
				lastOut[i] = c18Last{out: c18Solo[i], state: fmt.Sprint([]int(nil)), applied: map[int]bool{}}
			}
			desc := ""
			for d := 0; d < depth; d++ {
				k := c.Free(len(menu)+1, "op")
				if k == 0 {
					break
				}
				o := menu[k-1]
				desc += o.name + " ; "
				c.Transitions(1)
				if o.ser < 0 {
					o.mut(shared)
					for mi := range muts {
						if muts[mi].name == o.name {
							applied = append(applied, mi)
						}
					}
					continue
				}
				if o.failAt > 0 {
					fw := &c18FailingWriter{failAt: o.failAt}
					c18Sers[o.ser].run(shared, fw) // error expected; judged by C19
					continue
				}
				before := c18Snapshot(shared)
				var out bytes.Buffer
				err := c18Sers[o.ser].run(shared, &out)
				// expected: the same serializer on a freshly built world brought to the same logical state
				fresh := c18NewWorld()
				for _, mi := range applied {
					muts[mi].mut(fresh)
				}
				var want bytes.Buffer
				werr := c18Sers[o.ser].run(fresh, &want)
				key := "C18/history:" + desc
				if err != nil || werr != nil || !bytes.Equal(out.Bytes(), want.Bytes()) {
					c.Outcome("DIFFERENT BYTES")
					c.Fail(key, "a call in a history produced bytes that differ from the same call on a fresh copy of the same logical input", desc, hx(want.Bytes()), fmt.Sprintf("%s err=%v/%v", hx(out.Bytes()), err, werr))
					return
				}
				// destination history: the same call into a bundle.CountingWriter the caller has already written
				// other bytes through (an integrity block, an earlier bundle) must deliver the same bytes behind
				// that prefix - the output is a function of the logical input, not of what the destination counted
				if strings.HasPrefix(c18Sers[o.ser].name, "Bundle.WriteTo") {
					var sink bytes.Buffer
					cw := bundle.NewCountingWriter(&sink)
					prefix := []byte("bytes the caller wrote through the counter first")
					if len(retained) > 0 {
						prefix = append(prefix, retained[len(retained)-1].snap...)
					}
					cw.Write(prefix)
					cerr := c18Sers[o.ser].run(shared, cw)
					if cerr != nil || sink.Len() < len(prefix) || !bytes.Equal(sink.Bytes()[len(prefix):], out.Bytes()) {
						c.Outcome("DESTINATION-DEPENDENT BYTES")
						c.Fail(key+":used-counting-writer", "bytes written into a caller's already used bundle.CountingWriter differ from the bytes written into a fresh buffer", desc, hx(out.Bytes()), fmt.Sprintf("%s err=%v", c18Tail(sink.Bytes(), len(prefix)), cerr))
						return
					}
				}
				// injectivity: once an input that this serializer encodes has changed, its
				// bytes must change too (catches stale memoised results that the
				// fresh-copy comparison cannot see because both copies share the
				// process-global memo)
				stateKey := fmt.Sprint(c18Distinct(applied))
				if prev, ok := lastOut[o.ser]; ok && prev.state != stateKey {
					changed := false
					for _, mi := range c18Distinct(applied) {
						if !prev.applied[mi] && c18Affects(muts[mi].name, c18Sers[o.ser].name) {
							changed = true
						}
					}
					if changed && bytes.Equal(prev.out, out.Bytes()) {
						c.Outcome("STALE OUTPUT")
						c.Fail(key+":stale", "output did not change although an input it encodes was changed (stale / memoised result)", desc, "bytes different from the call before the mutation", hx(out.Bytes()))
						return
					}
				}
				ap := map[int]bool{}
				for _, mi := range applied {
					ap[mi] = true
				}
				lastOut[o.ser] = c18Last{out: append([]byte{}, out.Bytes()...), state: stateKey, applied: ap}
				after := c18Snapshot(shared)
				if !bytes.Equal(before, after) {
					c.Outcome("INPUT MODIFIED")
					i := 0
					for i < len(before) && before[i] == after[i] {
						i++
					}
					c.Fail("C18/input-modified:"+o.name, "a serializer wrote into memory of its input (including the spare capacity behind an input slice)", desc, "input memory unchanged", fmt.Sprintf("first difference at snapshot byte %d: %02x -> %02x", i, before[i], after[i]))
					return
				}
				for _, r := range retained {
					if !bytes.Equal(r.got, r.snap) {
						c.Outcome("RETAINED OUTPUT CHANGED")
						c.Fail(key+":retained:"+r.name, "bytes returned by an earlier call changed after a later call (aliased buffer)", desc, hx(r.snap), hx(r.got))
						return
					}
				}
				// keep outputs of the byte-returning serializers as returned
				switch c18Sers[o.ser].name {
				case "Response.EncodeHeader":
					b, _ := shared.resp.EncodeHeader()
					retained = append(retained, kept{o.name, b, append([]byte{}, b...)})
				case "IntegrityBlock.CborBytes":
					b, _ := shared.ib.CborBytes()
					retained = append(retained, kept{o.name, b, append([]byte{}, b...)})
				case "SignedSubset.Encode":
					b, _ := shared.subset.Encode()
					retained = append(retained, kept{o.name, b, append([]byte{}, b...)})
				case "GenerateDataToBeSigned":
					b, _ := integrityblock.GenerateDataToBeSigned(shared.hash, shared.ibBytes, shared.attrs)
					retained = append(retained, kept{o.name, b, append([]byte{}, b...)})
				}
				c.State([]byte(desc), out.Bytes())
			}
			c.Eval()
			c.Sample(desc)
			if desc != "" {
				c.Nontrivial([]byte(desc))
			}
			c.Outcome("history consistent")
		},
	}

	// ---- (3) schedules ----
	schedH := &mc.Harness{
		Name:      "C18/schedules",
		NoConfirm: true,
		Isolated:  true, // single-threaded worker subprocesses: the hook is process-global
		Mode:      "stateless schedule exploration under a cooperative scheduler, iterative preemption bounding",
		Bound:     func(tier string) int { return 2 },
		Run: func(c *mc.Ctx) {
			c18Init()
			n := len(c18Sers)
			// scenario: 2 threads x 1 call (all unordered pairs incl. the same serializer twice);
			// thorough adds 3 threads x 1 call over the pairs' neighbours
			shape := c.Free(c.Pick(1, 3), "shape")
			var calls [][]int
			var i, j int
			switch shape {
			case 0: // every unordered pair of serializer calls (a call may meet itself)
				i = c.Free(n, "thread0")
				j = i + c.Free(n-i, "thread1")
				calls = [][]int{{i}, {j}}
			case 1: // thorough: 3 threads x 1 call, every ascending triple over the calls that share the
				// most code (cbor encoder, bundle writer, signed exchange, cert chain, MI, integrity block)
				core := c18CoreSers()
				m := len(core)
				a := c.Free(m, "thread0")
				b := a + c.Free(m-a, "thread1")
				d := b + c.Free(m-b, "thread2")
				i, j = core[a], core[b]
				calls = [][]int{{core[a]}, {core[b]}, {core[d]}}
			case 2: // thorough: 2 threads, the first makes two calls in a row
				core := c18CoreSers()
				m := len(core)
				a := c.Free(m, "thread0.call0")
				b := c.Free(m, "thread0.call1")
				d := c.Free(m, "thread1")
				i, j = core[a], core[d]
				calls = [][]int{{core[a], core[b]}, {core[d]}}
			}
			s := &mc.Sched{}
			outs := make([][]*c18YieldWriter, len(calls))
			errs := make([][]error, len(calls))
			var bodies []func()
			for t := range calls {
				t := t
				outs[t] = make([]*c18YieldWriter, len(calls[t]))
				errs[t] = make([]error, len(calls[t]))
				bodies = append(bodies, func() {
					for ci, si := range calls[t] {
						yw := &c18YieldWriter{s: s}
						outs[t][ci] = yw
						errs[t][ci] = c18Sers[si].run(c18W, yw)
					}
				})
			}
			c18Sched = s
			panics := mc.RunThreads(c, s, bodies)
			c18Sched = nil
			c.Eval()
			desc := ""
			for t := range calls {
				desc += fmt.Sprintf("T%d:", t)
				for _, si := range calls[t] {
					desc += c18Sers[si].name + " "
				}
			}
			c.StateU64(uint64(i)<<40 | uint64(j)<<20 | uint64(len(calls)))
			for t := range calls {
				if panics[t] != "" {
					c.Outcome("PANIC")
					c.Fail("C18/sched:"+desc, "a serializer panicked under an interleaving", desc+fmt.Sprintf(" schedule=%v", c.Vector()), "no panic", panics[t])
					return
				}
				for ci, si := range calls[t] {
					if errs[t][ci] != nil || !bytes.Equal(outs[t][ci].buf.Bytes(), c18Solo[si]) {
						c.Outcome("DIFFERENT BYTES")
						c.Fail("C18/sched:"+desc, "a thread's output under an interleaving differs from its solo output", desc+fmt.Sprintf(" schedule=%v", c.Vector()), hx(c18Solo[si]), fmt.Sprintf("%s err=%v", hx(outs[t][ci].buf.Bytes()), errs[t][ci]))
						return
					}
				}
			}
			if snap := c18Snapshot(c18W); !bytes.Equal(snap, c18Input) {
				// (judged by the history harness with a precise key; here it would poison later executions)
				c.Outcome("input memory differs from the initial snapshot (judged in C18/histories)")
			}
			c.Nontrivial([]byte(desc), []byte(fmt.Sprint(c.Vector())))
			c.Outcome(fmt.Sprintf("%d threads: all outputs equal solo outputs", len(calls)))
			c.Sample(desc + fmt.Sprintf(" schedule=%v", c.Vector()))
		},
	}

	// ---- (4) data races: auxiliary free-running pass under the race detector ----
	raceH := &mc.Harness{
		Name:      "C18/races",
		NoConfirm: true,
		Serial:    true,
		Mode:      "auxiliary (not model checking): free-running goroutine pairs in a -race build, no synchronisation between them",
		Run: func(c *mc.Ctx) {
			bin := os.Getenv("VERIF_RACE_BIN")
			if bin == "" {
				c.Cap("race binary not available (VERIF_RACE_BIN unset)")
				c.Outcome("skipped")
				return
			}
			n := len(c18Sers) + len(c18Large) + len(c18Sers) // pairs, large inputs, cold starts
			type res struct {
				i      int
				out    string
				failed bool
			}
			ch := make(chan res, n)
			sem := make(chan struct{}, 8)
			for i := 0; i < n; i++ {
				i := i
				go func() {
					sem <- struct{}{}
					defer func() { <-sem }()
					cmd := exec.Command(bin, "race", strconv.Itoa(i))
					cmd.Env = append(os.Environ(), "GORACE=halt_on_error=0 exitcode=66")
					b, err := cmd.CombinedOutput()
					ch <- res{i, string(b), err != nil}
				}()
			}
			pairs := 0
			for k := 0; k < n; k++ {
				r := <-ch
				sc := bufio.NewScanner(strings.NewReader(r.out))
				sc.Buffer(make([]byte, 1<<20), 1<<26)
				cur := ""
				var block []string
				inRace := false
				flush := func() {
					if !inRace {
						return
					}
					inRace = false
					fn := c18RaceFuncs(block)
					c.Outcome("DATA RACE")
					c.Fail("C18/race:"+fn, "data race between concurrent serializer calls on shared read-only inputs", cur, "no race report", strings.Join(block, "\n"))
					block = nil
				}
				for sc.Scan() {
					l := sc.Text()
					switch {
					case strings.HasPrefix(l, "PAIR "):
						flush()
						cur = l
						pairs++
						c.Transitions(1)
					case strings.HasPrefix(l, "COLD-MISMATCH "):
						c.Outcome("COLD-START OUTPUTS DIFFER")
						c.Fail("C18/race:cold:"+strings.SplitN(l[len("COLD-MISMATCH "):], ":", 2)[0], "concurrent first calls of a serializer in a fresh process returned different results", cur, "identical results", l[:min(len(l), 600)])
					case strings.Contains(l, "WARNING: DATA RACE"):
						flush()
						inRace = true
						block = []string{l}
					case l == "==================":
						flush()
					default:
						if inRace && len(block) < 60 {
							block = append(block, l)
						}
					}
				}
				flush()
				if r.failed && !strings.Contains(r.out, "DATA RACE") {
					c.Fail("C18/race:process:"+strconv.Itoa(r.i), "race pass process failed", r.out[:min(len(r.out), 400)], "exit 0", "non-zero exit")
				}
			}
			c.Eval()
			c.StatesByConstruction(int64(pairs))
			c.NontrivialByConstruction(int64(pairs))
			c.Sample(fmt.Sprintf("%d serializer pairs run as free goroutines under -race", pairs))
			c.Outcome("race pass completed")
		},
	}

	largeH := &mc.Harness{
		Name:      "C18/large-inputs",
		NoConfirm: true,
		Mode:      "repeated calls on large shared inputs and on freshly built copies",
		Run: func(c *mc.Ctx) {
			l := c18Large[c.Free(len(c18Large), "call")]
			var base []byte
			for rep := 0; rep < 4; rep++ {
				var w *c18World
				if rep != 3 {
					c18Init()
					w = c18W // shared input; rep 3: a freshly built copy (nil world)
				}
				var buf bytes.Buffer
				err := l.run(w, &buf)
				c.Transitions(1)
				if rep == 0 {
					base = append([]byte{}, buf.Bytes()...)
				}
				if err != nil || !bytes.Equal(buf.Bytes(), base) {
					c.Outcome("DIFFERENT BYTES")
					c.Fail("C18/large:"+l.name, "repeated calls on the same logical input produced different bytes", fmt.Sprintf("%s, call %d (3 = fresh copy of the input)", l.name, rep), hx(base), fmt.Sprintf("%s err=%v", hx(buf.Bytes()), err))
					return
				}
			}
			c.Eval()
			c.State([]byte(l.name))
			c.Nontrivial([]byte(l.name))
			c.Outcome("same bytes on 4 calls")
		},
	}

	// ---- time: inputs whose optional time fields are left at their zero value, serialized twice with more than a
	// second of wall-clock time in between.  The repository has no clock seam to take over, so the one thing a
	// harness can decide is that time passes: a serializer that fills in "now" gives different bytes.
	clockCalls := []struct {
		name string
		run  func() ([]byte, error)
	}{
		{"SignedSubset.Encode with zero Date and Expires", func() ([]byte, error) {
			ss := &signature.SignedSubset{ValidityUrl: c18MustURL("https://a.test/validity"), AuthSha256: bytes.Repeat([]byte{7}, 32),
				SubsetHashes: map[string]*signature.ResponseHashes{"https://a.test/": {Hashes: []*signature.ResourceIntegrity{{HeaderSha256: bytes.Repeat([]byte{9}, 32), PayloadIntegrityHeader: "digest/mi-sha256-03"}}}}}
			return ss.Encode()
		}},
		{"DumpSignedMessage(1b3) with a Signer whose Date and Expires are zero", func() ([]byte, error) {
			c18Init()
			sg := &signedexchange.Signer{Certs: []*x509.Certificate{fixtures.A.Leaf}, CertUrl: c18MustURL("https://a.test/cert.cbor"), ValidityUrl: c18MustURL("https://a.test/validity"),
				PrivKey: fixtures.A.Key, Algorithm: &signingalgorithm.MockSigningAlgorithm{}}
			var buf bytes.Buffer
			err := c18W.ex[sxgversion.Version1b3].DumpSignedMessage(&buf, sg)
			return buf.Bytes(), err
		}},
		{"AddSignatureHeader(1b2, mock algorithm) with a Signer whose Date and Expires are zero", func() ([]byte, error) {
			sg := &signedexchange.Signer{Certs: []*x509.Certificate{fixtures.A.Leaf}, CertUrl: c18MustURL("https://a.test/cert.cbor"), ValidityUrl: c18MustURL("https://a.test/validity"),
				PrivKey: fixtures.A.Key, Algorithm: &signingalgorithm.MockSigningAlgorithm{}}
			e := signedexchange.NewExchange(sxgversion.Version1b2, "https://a.test/", "GET", http.Header{}, 200, http.Header{"Content-Type": {"text/html"}}, []byte("p"))
			err := e.AddSignatureHeader(sg)
			return []byte(e.SignatureHeaderValue), err
		}},
		{"Bundle.WriteTo(b2) + CertChain.Write (no time-valued input at all)", func() ([]byte, error) {
			c18Init()
			var buf bytes.Buffer
			if _, err := c18W.bundleB2.WriteTo(&buf); err != nil {
				return nil, err
			}
			err := c18W.chain.Write(&buf)
			return buf.Bytes(), err
		}},
	}
	clockH := &mc.Harness{
		Name:      "C18/clock",
		NoConfirm: true,
		Mode:      "the same call before and after 1.1 s of wall-clock time",
		Run: func(c *mc.Ctx) {
			cc := clockCalls[c.Free(len(clockCalls), "call")]
			first, err1 := cc.run()
			time.Sleep(1100 * time.Millisecond)
			second, err2 := cc.run()
			c.Transitions(2)
			c.Eval()
			c.State([]byte(cc.name))
			c.Nontrivial([]byte(cc.name))
			if (err1 == nil) != (err2 == nil) || !bytes.Equal(first, second) {
				c.Outcome("DIFFERENT BYTES")
				c.Fail("C18/clock:"+cc.name, "the same logical input serialized 1.1 s later gives different bytes (the serializer reads the clock)", cc.name, fmt.Sprintf("%s err=%v", hx(first), err1), fmt.Sprintf("%s err=%v", hx(second), err2))
				return
			}
			c.Outcome("same bytes 1.1 s later")
		},
	}

	register(&mc.Property{
		ID:    "C18",
		Level: "model_checking",
		Rule:  "four parts. permutations: 12 serializer inputs (3 of them header maps holding one name under several case spellings, where a refusal must be the same refusal every time) x maps of 1..4 entries x every insertion permutation x 6 repeated calls, all bytes equal to the identity-order baseline. histories: every sequence of <=2 (quick) / <=3 (thorough) operations from 18 serializer calls + 4 input mutations + 25 calls whose destination fails at a chosen Write, on one shared world; each output = the same call on a freshly built world in the same logical state, input memory (incl. spare capacity) unchanged, earlier returned slices unchanged. schedules: every unordered pair of the 18 serializer calls as 2 logical threads (thorough: plus every ascending triple of 8 core calls as 3 threads, and every 2-call thread against a 1-call thread over those 8) on shared inputs, ALL interleavings at hooked operations (verifhook.Point sites, every Write of the harness-owned writer) with at most 2 preemptions; each thread's bytes = its solo bytes. large-inputs: 3 calls on inputs that reach size-dependent paths (bundle of 80 exchanges with different header blocks, 100 KiB MI payload, 70-entry map), 3 repeated calls on the shared input + 1 on a fresh copy. clock: 4 calls whose optional time fields are zero (signed subset, signed message, Signature header) or absent, repeated after 1.1 s of wall-clock time. races (auxiliary): every ordered pair as free-running goroutines in a -race build, each large-input call against itself, and each serializer call as the FIRST call of a fresh process made by four goroutines at once (cold start, world built without serializer calls). Non-trivial = >=2 map entries / non-empty history / a complete schedule; distinct by (scenario, vector).",
		Assumptions: []string{
			"Go map iteration order is runtime-internal and not behind a seam: order-independence is decided by enumerating every insertion permutation (small maps iterate as rotations of insertion order) with repeated calls, not by controlling the iteration",
			"the cooperative scheduler explores interleavings at hooked operations only; unsynchronised accesses between hooks are the race detector's job (separate free-running -race pass, auxiliary evidence, not model checking)",
			"ECDSA signature bytes are excluded: signing uses the repository's deterministic MockSigningAlgorithm",
		},
		Harnesses: []*mc.Harness{permH, histH, largeH, clockH, schedH, raceH},
		Guard: func(s map[string]*mc.Stats) error {
			if s["C18/schedules"].Executions < 1000 {
				return errors.New("schedule exploration too small")
			}
			return nil
		},
	})
}

type c18Last struct {
	out     []byte
	state   string
	applied map[int]bool
}

func c18Distinct(a []int) []int {
	seen := map[int]bool{}
	var out []int
	for _, x := range a {
		if !seen[x] {
			seen[x] = true
			out = append(out, x)
		}
	}
	sort.Ints(out)
	return out
}

// c18Affects says whether a mutation of the shared world changes the logical input
// of a serializer call.
func c18Affects(mut, ser string) bool {
	has := func(subs ...string) bool {
		for _, x := range subs {
			if strings.Contains(ser, x) {
				return true
			}
		}
		return false
	}
	switch {
	case strings.HasPrefix(mut, "mutate: resp.Status"):
		return has("EncodeHeader", "Bundle.WriteTo")
	case strings.HasPrefix(mut, "mutate: add header"), strings.HasPrefix(mut, "mutate: header VALUES"):
		return has("EncodeHeader", "Bundle.WriteTo", "Exchange.Write", "DumpExchangeHeaders", "DumpSignedMessage")
	case strings.HasPrefix(mut, "mutate: cert chain"):
		return has("CertChain.Write")
	case strings.HasPrefix(mut, "mutate: payload"):
		return has("mice.Encode", "SignedSubset.Encode", "GenerateDataToBeSigned", "ParameterisedList.String", "IntegrityBlock.CborBytes")
	}
	return false
}

var c18FuncRe = regexp.MustCompile(`github\.com/WICG/webpackage/go/([A-Za-z0-9_/.*()-]+)`)

// c18RaceFuncs extracts the repository functions named in a race report (stable key).
func c18RaceFuncs(block []string) string {
	seen := map[string]bool{}
	var out []string
	for _, l := range block {
		if strings.Contains(l, "zverif") {
			continue
		}
		if m := c18FuncRe.FindStringSubmatch(l); m != nil && !seen[m[1]] {
			seen[m[1]] = true
			out = append(out, m[1])
		}
	}
	sort.Strings(out)
	if len(out) > 4 {
		out = out[:4]
	}
	return strings.Join(out, ",")
}

// c18Large are serializer calls on inputs large enough to reach size-dependent code paths (a bundle of 80
// exchanges with pairwise different header blocks, a 100 KiB MI payload in 25 records, a map of 70 entries).
// They are too long for the schedule explorer; they run in C18/large-inputs (repeated calls on one shared
// input and on a freshly built copy must give the same bytes) and, two goroutines per call, in the -race pass.
var (
	c18LargeOnce   sync.Once
	c18LargeBundle *bundle.Bundle
	c18LargeData   []byte
)

func c18BuildLargeBundle() *bundle.Bundle {
	b := &bundle.Bundle{Version: bversion.VersionB2, PrimaryURL: c18MustURL("https://a.test/large/0")}
	for i := 0; i < 80; i++ {
		h := http.Header{"Content-Type": {"text/plain"}, "X-Index": {strconv.Itoa(i)}}
		b.Exchanges = append(b.Exchanges, &bundle.Exchange{Request: bundle.Request{URL: c18MustURL("https://a.test/large/" + strconv.Itoa(i))},
			Response: bundle.Response{Status: 200 + i%5, Header: h, Body: []byte{byte(i), 'x'}}})
	}
	return b
}

func c18LargeInit() {
	c18LargeOnce.Do(func() {
		c18LargeBundle = c18BuildLargeBundle()
		c18LargeData = pattern(100<<10, 18)
	})
}

var c18Large = []c18Ser{
	{"Bundle.WriteTo(b2, 80 exchanges with different headers)", func(w *c18World, out io.Writer) error {
		c18LargeInit()
		b := c18LargeBundle
		if w == nil {
			b = c18BuildLargeBundle() // fresh copy of the same logical input
		}
		_, err := b.WriteTo(out)
		return err
	}},
	{"mice.Encode(draft03, 100 KiB, record size 4096)", func(w *c18World, out io.Writer) error {
		c18LargeInit()
		d, err := mice.Draft03Encoding.Encode(out, c18LargeData, 4096)
		return c18WriteBytes(out, []byte(d), err)
	}},
	{"cbor.EncodeMap(70 entries)", func(w *c18World, out io.Writer) error {
		var mes []*cbor.MapEntryEncoder
		for i := 69; i >= 0; i-- {
			i := i
			mes = append(mes, cbor.GenerateMapEntry(func(k, v *cbor.Encoder) {
				k.EncodeTextString("key-" + strconv.Itoa(i*7919%70))
				v.EncodeUint(uint64(i))
			}))
		}
		return cbor.NewEncoder(out).EncodeMap(mes)
	}},
}

// c18RaceMain is the body of `harness race <i>` in the -race build: serializer i
// against every serializer j as free-running goroutines.
func c18RaceMain(i int) {
	if n := len(c18Sers) + len(c18Large); i >= n {
		// cold start: the FIRST serializer call of this process is made by four goroutines at once on a world that
		// was built without any serializer call (lazily built package-level tables, sync.Once-less caches)
		s := c18Sers[i-n]
		w := c18BuildWorld(true)
		fmt.Fprintf(os.Stderr, "PAIR %d %d %s | %s (cold start, 4 goroutines)\n", i, i, s.name, s.name)
		start := make(chan struct{})
		outs := make([]string, 4)
		var wg sync.WaitGroup
		for g := 0; g < 4; g++ {
			g := g
			wg.Add(1)
			go func() {
				defer wg.Done()
				<-start
				var buf bytes.Buffer
				err := s.run(w, &buf)
				outs[g] = fmt.Sprintf("err=%v bytes=%x", err, buf.Bytes())
			}()
		}
		close(start)
		wg.Wait()
		for g := 1; g < 4; g++ {
			if outs[g] != outs[0] {
				fmt.Fprintf(os.Stderr, "COLD-MISMATCH %s: goroutine 0 %s | goroutine %d %s\n", s.name, outs[0], g, outs[g])
			}
		}
		return
	}
	c18Init()
	if i >= len(c18Sers) {
		// a large-input call against itself (two free-running goroutines on the shared input)
		l := c18Large[i-len(c18Sers)]
		fmt.Fprintf(os.Stderr, "PAIR %d %d %s | %s\n", i, i, l.name, l.name)
		var wg sync.WaitGroup
		for g := 0; g < 2; g++ {
			wg.Add(1)
			go func() {
				defer wg.Done()
				for rep := 0; rep < 5; rep++ {
					var buf bytes.Buffer
					l.run(c18W, &buf)
				}
			}()
		}
		wg.Wait()
		return
	}
	for j := range c18Sers {
		fmt.Fprintf(os.Stderr, "PAIR %d %d %s | %s\n", i, j, c18Sers[i].name, c18Sers[j].name)
		var wg sync.WaitGroup
		for _, si := range []int{i, j} {
			si := si
			wg.Add(1)
			go func() {
				defer wg.Done()
				for rep := 0; rep < 20; rep++ {
					var buf bytes.Buffer
					c18Sers[si].run(c18W, &buf)
				}
			}()
		}
		wg.Wait()
	}
}
