package main

// C16/byte-sweep: the BYTE VALUE as the swept quantity.  The character pools of the other harnesses hold one
// representative of each class the grammar names (printable boundaries, the punctuation of tokens and keys, a few
// control and non-ASCII characters); a character predicate written with arithmetic on the byte (case folding by OR,
// range tests, a lookup table with a hole) is wrong for byte values no class representative stands for.  Every byte
// value 0..255 is put at the first / a middle / the last position of a token, a string, a label, a key, and of the
// base64 text of a byte sequence:
//   * as a VALUE handed to both serializers (c16LolCase / c16PlCase: reference serialization or refusal, read back);
//   * as TEXT handed to both parsers (c16CheckLol / c16CheckPl: accepted exactly when the reference accepts, same value,
//     parse-serialize-parse).

import (
	"fmt"

	"github.com/WICG/webpackage/go/signedexchange/zverif/mc"
)

func c16ByteAt(b byte, pos int) string {
	switch pos {
	case 0:
		return string([]byte{b, 'b', 'c'})
	case 1:
		return string([]byte{'a', b, 'c'})
	case 2:
		return string([]byte{'a', 'b', b})
	}
	return string([]byte{b})
}

func init() {
	p := props["C16"]
	p.Harnesses = append(p.Harnesses, &mc.Harness{Name: "C16/byte-sweep", Run: func(c *mc.Ctx) {
		b := byte(c.Free(256, "byte value"))
		pos := c.Free(4, "position: first / middle / last / alone")
		s := c16ByteAt(b, pos)
		side := c.Free(2, "value / text")
		if side == 0 {
			switch c.Free(6, "where") {
			case 0:
				c16LolCase(c, [][]c16Gen{{gTok(s)}})
			case 1:
				c16LolCase(c, [][]c16Gen{{gInt(1), gStr(s)}})
			case 2:
				c16PlCase(c, []c16GenMember{{label: s, params: nil}})
			case 3:
				c16PlCase(c, []c16GenMember{{label: "a", params: []c16GenParam{{key: s, val: gInt(1)}}}})
			case 4:
				c16PlCase(c, []c16GenMember{{label: "a", params: []c16GenParam{{key: "k", val: gTok(s)}}}})
			default:
				c16PlCase(c, []c16GenMember{{label: "a", params: []c16GenParam{{key: "kk", val: gStr(s)}, {key: s, val: gF(nil)}}}})
			}
			return
		}
		blk := &c16Block{}
		texts := []string{
			s,                     // token / label
			"\"" + s + "\"",       // string
			"*" + s + "=*",        // byte sequence (base64 text)
			"x, " + s,             // second member
			"lab;" + s + "=1",     // key
			"lab;k=" + s,          // parameter value: token
			"lab;k=\"" + s + "\"", // parameter value: string
			"lab;k=*" + s + "A=*", // parameter value: byte sequence
			"1;" + s,              // inner list / not a label
			s + ";k",              // label with a parameter
		}
		t := texts[c.Free(len(texts), "context")]
		c.State([]byte(fmt.Sprintf("text %q", t)))
		c16CheckLol(c, t, blk)
		c16CheckPl(c, t, blk)
		c.Transitions(blk.implOps)
		if blk.nontrivial > 0 || blk.accepted > 0 {
			c.Nontrivial([]byte(t))
		}
	}})
	p.Rule += " C16/byte-sweep: every byte value 0..255 at the first / middle / last / only position of a token, string, label, key (as values through both serializers) and of 10 textual contexts (through both parsers)."
}
