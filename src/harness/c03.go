package main

// C03 - bundle write -> read round trip preserves every exchange.
//
// SPACE: the generator of C04 (c04GenGrid, c04GenVariants in c04.go): versions x 0..3
// exchanges x URL shapes x body-length classes x header sets x status x primary /
// manifest / signatures x b1 variant sets (1 and 2 axes, every insertion permutation,
// complete / incomplete / overlapping / multi-key).  Outside the claimed domain and NOT
// enumerated: URLs with fragment or credentials, relative primary URL in b2, non-ASCII
// header values, header names starting with ':', status outside 100..999, nil primary
// URL in b1, header names that collide after case folding, inconsistent Variants values.
//
// ORACLE: bundle.Read(WriteTo(b)) equals b field by field - version, primary URL,
// manifest URL, signatures section and, per URL, status, header fields (names folded,
// values comma-joined) and body, every exchange exactly once under its own URL (bodies
// and a header carry the exchange's number, so a swap is visible); for b1 variant sets
// the representations of a URL come back in the row-major order refbundle computes (a
// representation serving several keys once per key).  The order of different URLs in
// the result is not claimed and not checked.  When the reference says the logical bundle
// cannot be represented (two exchanges for one URL without a variant set; incomplete or
// overlapping coverage; manifest in b2) WriteTo must fail - success would mean something
// is dropped.  Fixpoint: W(R(W(R(W(b))))) is byte-identical to W(R(W(b))) and the second
// read still equals b (not claimed, not demanded for multi-key Variant-Key bundles).
//
// HISTORIES (C03/histories): every sequence up to depth 3 (5 thorough) of {add one of 6
// exchanges, remove the first exchange, write+read (continue with what was read)} on
// one live Bundle, followed by three write/read cycles.

import (
	"bytes"
	"fmt"
	"net/http"
	"strings"

	"github.com/WICG/webpackage/go/bundle"
	bundleversion "github.com/WICG/webpackage/go/bundle/version"
	"github.com/WICG/webpackage/go/signedexchange/zverif/mc"
	"github.com/WICG/webpackage/go/signedexchange/zverif/refbundle"
)

func c03Read(b []byte) (out *bundle.Bundle, err error, pan string) {
	defer func() {
		if r := recover(); r != nil {
			pan = fmt.Sprint(r)
		}
	}()
	// the bytes are handed over in a *bytes.Buffer whose storage is overwritten right after the call (a
	// caller recycling its scratch buffer): what Read returned must not live in the caller's memory
	store := append([]byte{}, b...)
	buf := bytes.NewBuffer(store)
	defer func() {
		buf.Reset()
		for i := range store {
			store[i] = 0xEE
		}
	}()
	out, err = bundle.Read(buf)
	return
}

func c03WriteBytes(b *bundle.Bundle) ([]byte, error, string) {
	var buf bytes.Buffer
	n, err, pan := c04Write(b, &buf)
	if pan == "" && n != int64(buf.Len()) && err == nil {
		err = fmt.Errorf("WriteTo returned %d for %d bytes", n, buf.Len())
	}
	return buf.Bytes(), err, pan
}

// c03Fold: names case-folded, repeated values comma-joined (the property's wording).
func c03Fold(h http.Header) []refbundle.Field {
	var out []refbundle.Field
	for name, vals := range h {
		out = append(out, refbundle.Field{Name: strings.ToLower(name), Value: strings.Join(vals, ",")})
	}
	return out
}

func c03Signatures(s *bundle.Signatures) *refbundle.LSignatures {
	if s == nil {
		return nil
	}
	out := &refbundle.LSignatures{}
	for _, a := range s.Authorities {
		la := refbundle.LAuthority{OCSP: a.OCSPResponse, SCT: a.SCTList}
		if a.Cert != nil {
			la.Cert = a.Cert.Raw
		}
		out.Authorities = append(out.Authorities, la)
	}
	for _, v := range s.VouchedSubsets {
		out.Vouched = append(out.Vouched, refbundle.LVouched{Authority: v.Authority, Sig: v.Sig, Signed: v.Signed})
	}
	return out
}

// c03Compare returns "" when got holds exactly what l describes.  order receives, for
// every exchange of got in its order, the position in l.Exchanges it corresponds to.
func c03Compare(l *refbundle.Logical, content []refbundle.IndexEntry, got *bundle.Bundle) (diff string, order []int) {
	if got == nil {
		return "nil bundle", nil
	}
	gb := &refbundle.Bundle{Version: string(got.Version), Signatures: c03Signatures(got.Signatures)}
	if got.PrimaryURL != nil {
		s := got.PrimaryURL.String()
		gb.PrimaryURL = &s
	}
	if got.ManifestURL != nil {
		s := got.ManifestURL.String()
		gb.ManifestURL = &s
	}
	if d := refbundle.DiffMeta(l, gb); d != "" {
		return d, nil
	}
	want := map[string]*refbundle.IndexEntry{}
	total := 0
	for i := range content {
		want[content[i].URL] = &content[i]
		total += len(content[i].Responses)
	}
	if len(got.Exchanges) != total {
		var urls []string
		for _, e := range got.Exchanges {
			if e != nil && e.Request.URL != nil {
				urls = append(urls, e.Request.URL.String())
			}
		}
		return fmt.Sprintf("%d exchanges %q, expected %d", len(got.Exchanges), urls, total), nil
	}
	seen := map[string]int{}
	for i, e := range got.Exchanges {
		if e == nil || e.Request.URL == nil {
			return fmt.Sprintf("exchange %d has no URL", i), nil
		}
		u := e.Request.URL.String()
		w := want[u]
		if w == nil {
			return fmt.Sprintf("exchange %d has URL %q which is not in the input", i, u), nil
		}
		k := seen[u]
		seen[u]++
		if k >= len(w.Responses) {
			return fmt.Sprintf("%q comes back %d times, expected %d", u, k+1, len(w.Responses)), nil
		}
		g := refbundle.Response{Status: e.Response.Status, Fields: c03Fold(e.Response.Header), Body: e.Response.Body}
		if d := refbundle.DiffResponse(w.Responses[k], g); d != "" {
			return fmt.Sprintf("%q representation %d (input exchange %d): %s", u, k, w.Responses[k].Exchange, d), nil
		}
		order = append(order, w.Responses[k].Exchange)
	}
	return "", order
}

func c03RefusalClass(kind string) string {
	switch kind {
	case "overlap", "incomplete":
		return "incomplete or overlapping variant coverage accepted at write time"
	case "dup-url", "no-variants":
		return "several exchanges for one URL accepted although no variant set distinguishes them (one is dropped)"
	case "manifest-b2":
		return "manifest URL accepted by a version that cannot store it (it is dropped)"
	}
	return "bundle the reference cannot represent accepted at write time (" + kind + ")"
}

// c03Check is the C03 oracle for one generated case.
func c03Check(c *mc.Ctx, hname string, cs *c04Case) {
	l := cs.logical()
	_, refErr := refbundle.Serialize(l)
	content, _ := refbundle.Content(l)
	c.State([]byte(cs.Desc))
	c.Sample(cs.Desc)
	c.Eval()
	key := hname + ":" + cs.Desc
	if refErr == nil && len(cs.Exs) > 0 {
		c.Nontrivial([]byte(cs.Desc))
	}
	w1, err, pan := c03WriteBytes(cs.build())
	c.Transitions(1)
	if pan != "" {
		c.Outcome("VIOLATION panic")
		c.Fail(key+":panic", "WriteTo panicked", cs.Desc, "bytes or an error", pan)
		return
	}
	if refErr != nil {
		kind := refbundle.KindOf(refErr)
		if err != nil {
			c.Outcome("refused at write time: " + kind)
			return
		}
		obs := "WriteTo succeeded"
		if r, rerr, rpan := c03Read(w1); rerr != nil || rpan != "" {
			obs += fmt.Sprintf("; reading it back: err=%v panic=%q", rerr, rpan)
		} else {
			obs += fmt.Sprintf("; %d of %d exchanges come back", len(r.Exchanges), len(cs.Exs))
		}
		c.Outcome("VIOLATION accepted: " + kind)
		c.Fail(key+":accepted", c03RefusalClass(kind), cs.Desc, "WriteTo fails: "+refErr.Error(), obs)
		return
	}
	if err != nil {
		c.Outcome("VIOLATION refused")
		c.Fail(key+":refused", "writer refused a representable bundle", cs.Desc, "success", err.Error())
		return
	}
	w1 = append([]byte(nil), w1...)
	cur := w1
	var w2 []byte
	for cycle := 1; cycle <= 2; cycle++ {
		r, rerr, rpan := c03Read(cur)
		c.Transitions(1)
		if rerr != nil || rpan != "" {
			c.Outcome("VIOLATION unreadable")
			c.Fail(fmt.Sprintf("%s:read%d", key, cycle), "reader refuses what the writer produced", cs.Desc, "the bundle", fmt.Sprintf("cycle %d: err=%v panic=%q | %s", cycle, rerr, rpan, hx(cur)))
			return
		}
		if d, _ := c03Compare(l, content, r); d != "" {
			c.Outcome("VIOLATION differs")
			c.Fail(fmt.Sprintf("%s:diff%d", key, cycle), "what is read back differs from what was written", cs.Desc, "equal field by field", fmt.Sprintf("after %d write/read cycle(s): %s", cycle, d))
			return
		}
		next, werr, wpan := c03WriteBytes(r)
		c.Transitions(1)
		if cs.MultiKey {
			// the reader flattens a multi-key representation into repeated exchanges (by
			// design); the property excludes these bundles from the fixpoint claim
			c.Outcome(fmt.Sprintf("ok %s n=%d multi-key: round trip equal, re-serialization err=%v (fixpoint not claimed)", cs.Ver, len(cs.Exs), werr != nil || wpan != ""))
			return
		}
		if werr != nil || wpan != "" {
			c.Outcome("VIOLATION rewrite")
			c.Fail(fmt.Sprintf("%s:rewrite%d", key, cycle), "re-serializing what was read fails", cs.Desc, "bytes", fmt.Sprintf("cycle %d: err=%v panic=%q", cycle, werr, wpan))
			return
		}
		next = append([]byte(nil), next...)
		if cycle == 1 {
			w2 = next
			cur = next
			continue
		}
		if !bytes.Equal(next, w2) {
			c.Outcome("VIOLATION no fixpoint")
			c.Fail(key+":fixpoint", "W(R(W(R(W(b))))) differs from W(R(W(b)))", cs.Desc, hx(w2), c04FirstDiff(w2, next))
			return
		}
	}
	// what a Read returned belongs to the caller: after everything reachable from one result has been
	// overwritten (bodies incl. spare capacity, header values, URLs, signatures), reading the same bytes
	// again must still give the written content (no memoised URL / header / response objects shared
	// between calls).  Sharing inside ONE result (e.g. one *url.URL for all variants of a URL) is not judged.
	if len(cs.Exs) > 0 {
		if r, rerr, rpan := c03Read(w1); rerr == nil && rpan == "" {
			c05Scribble(r)
			r2, rerr2, rpan2 := c03Read(w1)
			c.Transitions(2)
			d := fmt.Sprintf("err=%v panic=%q", rerr2, rpan2)
			if rerr2 == nil && rpan2 == "" {
				d, _ = c03Compare(l, content, r2)
			}
			if d != "" {
				c.Outcome("VIOLATION read depends on an earlier result")
				c.Fail(key+":reread", "reading the same bytes again, after the caller overwrote the bundle the first Read returned, gives different content", cs.Desc, "equal field by field", d)
				return
			}
		}
	}
	size := "<64KiB"
	if len(w1) >= 65536 {
		size = ">=64KiB"
	}
	c.Outcome(fmt.Sprintf("ok %s n=%d size%s round trip equal, fixpoint reached, first rewrite identical=%v", cs.Ver, len(cs.Exs), size, bytes.Equal(w1, w2)))
}

// ---- histories ---------------------------------------------------------------------

func c03MenuExchange(kind, k int, seed int64) c04Ex {
	vv := "Accept-Language;en;fr"
	rep := func(vk string, id int) c04Ex {
		return c04Ex{URL: "https://a.test/v", Status: 200, Hdr: []refbundle.LHeader{
			{Name: "Content-Type", Values: []string{fmt.Sprintf("text/plain;i=%d", k)}},
			{Name: "Variants", Values: []string{vv}}, {Name: "Variant-Key", Values: []string{vk}}},
			Body: []byte{0xB0 + byte(id), 0xA0 + byte(k), 'r'}}
	}
	switch kind {
	case 0:
		return c04Ex{URL: c04URLs[1], Status: 200, Hdr: c04HeaderSet(0, k), Body: c04Body(24, k, seed)}
	case 1:
		return c04Ex{URL: c04URLs[0], Status: 404, Hdr: c04HeaderSet(3, k), Body: nil}
	case 2:
		return c04Ex{URL: c04URLs[3], Status: 200, Hdr: c04HeaderSet(2, k), Body: c04Body(256, k, seed)}
	case 3:
		return rep("en", 0)
	case 4:
		return rep("fr", 1)
	case 5:
		return rep("fr, en", 2)
	}
	panic("c03MenuExchange")
}

var c03MenuNames = []string{"add(24-byte URL)", "add(23-byte query URL, empty body)", "add(256-byte URL)", "add(variant en)", "add(variant fr)", "add(variant fr+en)"}

func c03Histories(c *mc.Ctx) {
	ver := []string{"b1", "b2"}[c.Free(2, "version")]
	primary := c04PrimaryPool[0]
	model := &c04Case{Ver: ver, Primary: &primary}
	live := &bundle.Bundle{Version: bundleversion.Version(ver), PrimaryURL: c04MustURL(primary), Exchanges: []*bundle.Exchange{}}
	depth := c.Pick(3, 5)
	desc := ver + ":"
	adds := 0
	nOps := len(c03MenuNames) + 4

	// cycle writes the live bundle, and when that is possible continues with what is
	// read back; returns false after reporting a violation.
	cycle := func(tag string) (ok bool, wrote []byte) {
		l := model.logical()
		_, refErr := refbundle.Serialize(l)
		content, _ := refbundle.Content(l)
		w, err, pan := c03WriteBytes(live)
		c.Transitions(1)
		key := "C03/histories:" + desc + tag
		if pan != "" {
			c.Fail(key+":panic", "WriteTo panicked", desc, "bytes or an error", pan)
			return false, nil
		}
		if refErr != nil {
			if err == nil {
				c.Fail(key+":accepted", c03RefusalClass(refbundle.KindOf(refErr)), desc, "WriteTo fails: "+refErr.Error(), "WriteTo succeeded")
				return false, nil
			}
			return true, nil // refused as expected; the live bundle stays as it is
		}
		if err != nil {
			c.Fail(key+":refused", "writer refused a representable bundle", desc, "success", err.Error())
			return false, nil
		}
		w = append([]byte(nil), w...)
		r, rerr, rpan := c03Read(w)
		c.Transitions(1)
		if rerr != nil || rpan != "" {
			c.Fail(key+":read", "reader refuses what the writer produced", desc, "the bundle", fmt.Sprintf("err=%v panic=%q | %s", rerr, rpan, hx(w)))
			return false, nil
		}
		d, order := c03Compare(l, content, r)
		if d != "" {
			c.Fail(key+":diff", "what is read back differs from what was written", desc, "equal field by field", d)
			return false, nil
		}
		// continue with what was read: the model follows the order the reader returned
		// (the order of different URLs is not claimed, so it is taken from the observation)
		var exs []c04Ex
		for _, x := range order {
			exs = append(exs, model.Exs[x])
		}
		model.Exs = exs
		live = r
		return true, w
	}

	for step := 0; step < depth; step++ {
		k := c.Free(nOps+1, "op")
		if k == 0 {
			break
		}
		k--
		switch {
		case k < len(c03MenuNames):
			e := c03MenuExchange(k, adds, c.Seed)
			adds++
			model.Exs = append(model.Exs, e)
			live.Exchanges = append(live.Exchanges, &bundle.Exchange{Request: bundle.Request{URL: c04MustURL(e.URL)}, Response: bundle.Response{Status: e.Status, Header: c04Header(e.Hdr), Body: e.Body}})
			desc += " " + c03MenuNames[k]
			c.Transitions(1)
		case k == len(c03MenuNames):
			desc += " remove-first"
			if len(model.Exs) > 0 {
				model.Exs = append([]c04Ex{}, model.Exs[1:]...)
				live.Exchanges = live.Exchanges[1:]
			}
			c.Transitions(1)
		case k == len(c03MenuNames)+2:
			// the first exchange of the live bundle edited IN PLACE (same Exchange object, same body
			// slice, same header map): a writer that remembers an encoded form per object shows it
			desc += " edit-first-in-place"
			if len(model.Exs) > 0 {
				le := live.Exchanges[0]
				nb := append([]byte{}, le.Response.Body...)
				for i := range nb {
					nb[i] ^= 0x5a
				}
				copy(le.Response.Body, nb)
				le.Response.Status = 404
				if le.Response.Header == nil {
					le.Response.Header = http.Header{}
				}
				le.Response.Header.Set("X-Edit", "1")
				m := model.Exs[0]
				m.Body, m.Status = nb, 404
				var hs []refbundle.LHeader
				for _, h := range m.Hdr {
					if !strings.EqualFold(h.Name, "X-Edit") {
						hs = append(hs, h)
					}
				}
				m.Hdr = append(hs, refbundle.LHeader{Name: "X-Edit", Values: []string{"1"}})
				model.Exs[0] = m
			}
			c.Transitions(1)
		case k == len(c03MenuNames)+3:
			// a write whose result is thrown away (the live objects stay in use)
			desc += " write-only"
			c03WriteBytes(live)
			c.Transitions(1)
		default:
			desc += " write+read"
			if ok, _ := cycle(fmt.Sprintf("@%d", step)); !ok {
				c.Outcome("VIOLATION")
				return
			}
		}
		c.State([]byte(desc))
	}
	c.Eval()
	c.Sample(desc)
	if len(model.Exs) > 0 {
		c.Nontrivial([]byte(desc))
	}
	// repeated write/read cycles: content preserved every time, bytes stable from the
	// second write on (a refused model stays refused)
	var prev []byte
	stable := "n/a"
	for i := 1; i <= 3; i++ {
		ok, w := cycle(fmt.Sprintf("@final%d", i))
		if !ok {
			c.Outcome("VIOLATION")
			return
		}
		if w == nil {
			stable = "refused"
			break
		}
		if i == 3 {
			if !bytes.Equal(prev, w) {
				c.Outcome("VIOLATION")
				c.Fail("C03/histories:"+desc+":fixpoint", "repeated write/read cycles do not reach a byte-identical fixpoint", desc, hx(prev), c04FirstDiff(prev, w))
				return
			}
			stable = "fixpoint"
		}
		prev = w
	}
	c.Outcome(fmt.Sprintf("ok %s exchanges=%d final=%s", ver, len(model.Exs), stable))
}

func init() {
	bound := func(tier string) int {
		if tier == "quick" {
			return 1
		}
		return 2
	}
	grid := &mc.Harness{Name: "C03/grid", Bound: bound, Run: func(c *mc.Ctx) { c03Check(c, "C03/grid", c04GenGrid(c)) }}
	vars := &mc.Harness{Name: "C03/variants", Bound: bound, Run: func(c *mc.Ctx) { c03Check(c, "C03/variants", c04GenVariants(c)) }}
	hist := &mc.Harness{Name: "C03/histories", Mode: "explicit-state search over operation histories on one live Bundle (add exchange / remove first / edit the first exchange in place / write and discard / write+read), then three write/read cycles", Run: c03Histories}
	register(&mc.Property{
		ID:    "C03",
		Level: "model_checking",
		Rule:  "same generator as C04: versions b1/b2 x 0..3 exchanges; n<=2: full product of URL choices from an 8-shape pool (with replacement) x 8 body-length classes per exchange; n=3: every ordered triple of distinct URLs; deviation-bounded (1 quick / 2 thorough) header set, status, primary URL, manifest URL, signatures shape, n=3 body class; b1 variant sets: 5 axis shapes x {complete, incomplete, overlapping, multi-key, multi-key overlapping} x every affected key x insertion permutations. Each representable case goes through write, read, write, read, write. Histories: every sequence up to depth 3 (quick) / 5 (thorough) over 8 operations x 2 versions, each followed by three write/read cycles. A case is non-trivial when it holds at least one exchange and the reference can represent it (grid/variants) / when the final bundle is not empty (histories); distinct by logical description / history.",
		Assumptions: []string{
			"refbundle.Content (header folding, URL grouping, row-major order of variant keys, which sets are incomplete/overlapping) is correct",
			"the order in which exchanges of different URLs come back is not part of the property and not checked",
			"inputs stay inside the domain DESIGN.md states for C03 (no fragment/credentials, absolute primary URL in b2, ASCII header values, no ':' names, status 100..999, primary URL present in b1, names distinct after case folding, one Variants value per URL)",
			"lengths between the enumerated class boundaries behave like their neighbours; at most 3 exchanges / 7 representations",
		},
		Harnesses: []*mc.Harness{grid, vars, hist},
		Guard: func(s map[string]*mc.Stats) error {
			if s["C03/grid"].Executions < 5000 || s["C03/grid"].Nontrivial < 5000 {
				return fmt.Errorf("grid too small: %d executions, %d non-trivial", s["C03/grid"].Executions, s["C03/grid"].Nontrivial)
			}
			if s["C03/variants"].Nontrivial < 200 || s["C03/variants"].Executions <= s["C03/variants"].Nontrivial {
				return fmt.Errorf("variant sets: %d representable of %d (refusable sets missing?)", s["C03/variants"].Nontrivial, s["C03/variants"].Executions)
			}
			if s["C03/histories"].Nontrivial < 500 {
				return fmt.Errorf("histories too few: %d", s["C03/histories"].Nontrivial)
			}
			return nil
		},
	})
}
