package main

// C17/streams: several chains written one after the other into ONE stream and read back one after the other from one
// reader.  A single write/read round trip cannot see a reader that takes more from its source than the chain it
// returns (read-ahead buffering, a final over-long read): the surplus is simply discarded.  Here every chain after the
// first must still be found where the previous one ended.  Histories: every sequence of 2..3 chains from a pool of 4
// shapes x 5 kinds of source (bytes.Reader, bytes.Buffer, a plain io.Reader without ReadByte, a plain reader that
// returns one byte per call, a bufio.Reader owned by the caller).  Oracle: the stream is the concatenation of the
// reference serializations; the i-th ReadCertChain returns the i-th chain byte for byte; a further read reports an error.

import (
	"bufio"
	"bytes"
	"fmt"
	"io"
	"testing/iotest"

	"github.com/WICG/webpackage/go/signedexchange/certurl"
	"github.com/WICG/webpackage/go/signedexchange/zverif/mc"
	"github.com/WICG/webpackage/go/signedexchange/zverif/refcert"
)

type c17PlainReader struct{ r io.Reader } // hides ReadByte, WriteTo, Seek ... of the wrapped reader

func (p *c17PlainReader) Read(b []byte) (int, error) { return p.r.Read(b) }

func c17Streams(c *mc.Ctx) {
	type shape struct {
		n           int
		ocsp, sct   int
		sctOnSecond bool
	}
	shapes := []shape{{1, 1, 0, false}, {1, 24, 30, false}, {2, 300, 256, true}, {3, 5000, 0, true}}
	count := 2 + c.Free(2, "number of chains")
	var all [][]refcert.Entry
	var stream bytes.Buffer
	var want []byte
	desc := ""
	for k := 0; k < count; k++ {
		si := c.Free(len(shapes), "shape")
		sh := shapes[si]
		var entries []refcert.Entry
		var chain certurl.CertChain
		for i := 0; i < sh.n; i++ {
			ct := c17Pool[(k+i)%len(c17Pool)]
			e := refcert.Entry{Cert: ct.cert.Raw}
			if i == 0 {
				e.OCSP = c17Own(c17Blob(c.Seed, 3*k, sh.ocsp))
				if sh.sct > 0 {
					e.SCT = c17Own(c17Blob(c.Seed, 3*k+1, sh.sct))
				}
			} else if sh.sctOnSecond && i == 1 {
				e.SCT = c17Own(c17Blob(c.Seed, 3*k+2, 17))
			}
			entries = append(entries, e)
			chain = append(chain, &certurl.AugmentedCertificate{Cert: ct.cert, OCSPResponse: e.OCSP, SCTList: e.SCT})
		}
		ref, rerr := refcert.Serialize(entries)
		if rerr != nil {
			panic("c17 streams: reference refuses a legal chain: " + rerr.Error())
		}
		want = append(want, ref...)
		all = append(all, entries)
		desc += fmt.Sprintf("shape%d;", si)
		if err, pan := c17Write(chain, &stream); err != nil || pan != nil {
			c.Fail("C17/streams:write:"+desc, "Write of a legal chain into a stream that already holds chains failed", desc, "nil", fmt.Sprintf("err=%v panic=%v", err, pan))
			return
		}
		c.Transitions(1)
	}
	c.Eval()
	if !bytes.Equal(stream.Bytes(), want) {
		c.Outcome("VIOLATION stream bytes")
		c.Fail("C17/streams:bytes:"+desc, "chains written one after the other differ from the concatenated reference serializations", desc, fmt.Sprintf("%d bytes", len(want)), fmt.Sprintf("%d bytes", stream.Len()))
		return
	}
	srcNames := []string{"bytes.Reader", "bytes.Buffer", "plain io.Reader", "plain one-byte reader", "caller's bufio.Reader"}
	mode := c.Free(len(srcNames), "source")
	data := append([]byte{}, want...)
	var src io.Reader
	switch mode {
	case 0:
		src = bytes.NewReader(data)
	case 1:
		src = bytes.NewBuffer(data)
	case 2:
		src = &c17PlainReader{bytes.NewReader(data)}
	case 3:
		src = &c17PlainReader{iotest.OneByteReader(bytes.NewReader(data))}
	default:
		src = bufio.NewReaderSize(&c17PlainReader{bytes.NewReader(data)}, 64)
	}
	desc += " source=" + srcNames[mode]
	c.State([]byte(desc))
	for k, entries := range all {
		got, err, pan := c17Read(src)
		c.Transitions(1)
		if pan != nil || err != nil {
			c.Outcome("VIOLATION chain not found in the stream")
			c.Fail("C17/streams:read:"+desc, "a chain written after another one could not be read back from the same stream", fmt.Sprintf("%s chain %d of %d", desc, k+1, len(all)), "the chain", fmt.Sprintf("err=%v panic=%v", err, pan))
			return
		}
		if diff, _ := c17Compare(got, entries); diff != "" {
			c.Outcome("VIOLATION wrong chain")
			c.Fail("C17/streams:differs:"+desc, "a chain read from a stream of several chains differs from the one written at that place", fmt.Sprintf("%s chain %d of %d", desc, k+1, len(all)), "byte-equal DER, OCSP and SCT", diff)
			return
		}
	}
	if _, err, pan := c17Read(src); err == nil && pan == nil {
		c.Outcome("VIOLATION chain from nothing")
		c.Fail("C17/streams:extra:"+desc, "ReadCertChain returned a chain from an exhausted stream", desc, "error", "nil")
		return
	}
	c.Nontrivial([]byte(desc))
	c.Outcome(fmt.Sprintf("%d chains read back in order, source=%s", len(all), srcNames[mode]))
}

func init() {
	p := props["C17"]
	p.Harnesses = append(p.Harnesses, &mc.Harness{Name: "C17/streams", Mode: "operation histories: 2..3 Writes into one stream, then as many ReadCertChain calls on one source", Run: c17Streams})
	p.Rule += " C17/streams: every sequence of 2..3 chains (4 shapes: 1-3 certificates, blobs of 1..5000 bytes) written into one stream x 5 kinds of source read sequentially; each chain found where the previous one ended."
}
