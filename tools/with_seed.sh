#!/bin/sh
# usage: tools/with_seed.sh <seed-id> <check> <tier> [extra vcheck args]
# runs one check against a stored seeded change (planted through the build overlay; /repo untouched;
# evidence and replay files go to a scratch directory)
sid=$1; chk=$2; tier=$3; shift 3
V=$(cd "$(dirname "$0")/.." && pwd)
W=/tmp/ws_${sid}_$$
git -C /repo worktree add --detach $W HEAD -q || exit 2
( cd $W && git apply $V/seeded/$sid/patch.diff ) || { git -C /repo worktree remove --force $W; exit 2; }
files=$( (cd $W && git diff --name-only; git ls-files --others --exclude-standard) )
ov=""
for f in $files; do ov="$ov,/repo/$f=$W/$f"; done
VERIF_EXTRA_OVERLAY=${ov#,} VERIF_EVIDENCE_DIR=$W.ev/evidence VERIF_REPLAY_DIR=$W.ev/replay $V/vcheck $chk $tier "$@"
rc=$?
git -C /repo worktree remove --force $W; rm -rf $W.ev
echo "with_seed $sid $chk $tier: exit $rc"
exit $rc
