#!/usr/bin/env python3
"""Regenerate the table of DESIGN.md section 13 from seeded/*/meta.json and seeded/first_attempt.json."""
import json, os, re, glob
HERE = os.path.dirname(os.path.dirname(os.path.abspath(__file__)))
fa = json.load(open(os.path.join(HERE, "seeded", "first_attempt.json")))
rows = []
for d in sorted(glob.glob(os.path.join(HERE, "seeded", "C*"))):
    sid = os.path.basename(d)
    m = json.load(open(os.path.join(d, "meta.json")))
    am = m.get("author_meta", {})
    summ = am.get("summary") or am.get("change") or am.get("description") or am.get("what") or ""
    if isinstance(summ, (list, dict)):
        summ = json.dumps(summ)
    summ = " ".join(str(summ).split()).replace("|", "/")[:230]
    det = ", ".join(m["lead_verification"].get("detected_by", [])) or "NOT DETECTED"
    first = fa.get(sid, "caught")
    first = " ".join(first.split()).replace("|", "/")
    rows.append("| %s | %s | %s | %s |" % (sid, summ, det, first if first == "caught" else first))
n = len(rows)
missed = sum(1 for r in rows if not r.endswith("| caught |"))
p = os.path.join(HERE, "DESIGN.md")
s = open(p).read()
head = "| seed | change (author's summary, shortened) | caught by | first attempt |\n|---|---|---|---|\n"
i = s.index(head) + len(head)
j = s.index("\n\n", i)
s = s[:i] + "\n".join(rows) + s[j:]
s = re.sub(r"\n\d+ property-breaking changes were written by fresh sub-agents", "\n%d property-breaking changes were written by fresh sub-agents" % n, s)
s = re.sub(r"\n\d+ of the \d+ were not caught", "\n%d of the %d were not caught" % (missed, n), s)
s = re.sub(r"All \d+ are now reported by", "All %d are now reported by" % n, s)  # (no-op once the sentence names exceptions)
open(p, "w").write(s)
print("section 13: %d seeds, %d first-attempt misses" % (n, missed))
