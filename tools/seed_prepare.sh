#!/bin/sh
# usage: tools/seed_prepare.sh C01f C02f ...   (tag = property id + round letter)
# creates scratch worktrees /tmp/seed_<tag> of /repo and /tmp/seed_<tag>_out/PROMPT.txt for fresh sub-agents
TAGS="$*"
cd /repo || exit 1
for p in $TAGS; do git worktree add --detach /tmp/seed_$p HEAD -q 2>&1 | tail -1; mkdir -p /tmp/seed_${p}_out; done
TAGS="$TAGS" python3 - <<'PY'
import json,glob,os
props={json.loads(l)['id']:json.loads(l) for l in open('/verif/properties.jsonl')}
t=open('/verif/tools/seed_prompt.txt').read()
prev={}
for f in sorted(glob.glob('/verif/seeded/*/meta.json')):
    m=json.load(open(f)); prev.setdefault(m['breaks_property'],[]).append((m['author_meta'].get('summary') or '')[:420])
for tag in os.environ['TAGS'].split():
    pid=tag[:3]; p=props[pid]
    prop="%s — %s\n\n%s\n\nQuantified over: %s\n" % (p['id'],p['title'],p['statement'],p['quantifier']['text'])
    extra="\n\nIMPORTANT: other reviewers have already produced the changes below for the same property; yours must be DIFFERENT in mechanism, in a different function (preferably a different file), and must need a different kind of trigger. The obvious ideas are taken - read the code paths the property depends on closely (including helper packages they call into) and look for something subtle: an interaction between two functions, state carried across calls, a rarely taken branch, an optional field, an error path, an ordering assumption, a boundary in a DIFFERENT quantity than the ones below:\n"
    for x in prev.get(pid,[]):
        extra+='  - "%s"\n' % x
    open('/tmp/seed_%s_out/PROMPT.txt'%tag,'w').write(t.replace('PID',tag).replace('PROPTEXT',prop+extra).replace('"property": "%s"'%tag,'"property": "%s"'%pid))
    open('/tmp/seed_%s_out/PROPERTY.txt'%tag,'w').write(prop)
PY
echo prepared: $TAGS
