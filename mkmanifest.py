#!/usr/bin/env python3
"""Regenerates MANIFEST.json from the table below (kept in one place so that the
manifest is always valid and in step with the checks that exist)."""
import json, os, subprocess

HERE = os.path.dirname(os.path.abspath(__file__))

def hook_commits():
    p = os.path.join(HERE, "hook_commits.txt")
    if os.path.exists(p):
        return [l.split()[0] for l in open(p) if l.strip() and not l.startswith("#")]
    return []

CLAIMED = {}
def claim(pid, level, technique, text, note, design):
    CLAIMED[pid] = dict(level=level, technique=technique, text=text, note=note, design=design)

exec(open(os.path.join(HERE, "manifest_claims.py")).read())

ALL = ["C%02d" % i for i in range(1, 21)]
checks = []
for pid in ALL:
    if pid not in CLAIMED:
        continue
    c = CLAIMED[pid]
    checks.append({
        "property_id": pid,
        "quick_cmd": "./vcheck %s quick" % pid,
        "thorough_cmd": "./vcheck %s thorough" % pid,
        "evidence_file": "/verif/evidence/%s.json" % pid,
        "replay_cmd_template": "./vcheck replay {path}",
        "engine": "mc",
        "level_claimed": {"category": c["level"], "text": c["text"], "design_ref": c["design"]},
        "level_note": c["note"],
        "technique": c["technique"],
    })
na = [{"property_id": pid, "reason": "check not built yet in this round (planned, see DESIGN.md section 6); nothing is claimed for it until its harness exists"} for pid in ALL if pid not in CLAIMED]
m = {
    "version": 1,
    "setup_cmd": "./vcheck setup",
    "hooks": {
        "guard": "verif",
        "enable": "go build -tags verif -overlay <generated overlay> (done by ./vcheck for the checks that need hooks: C18)",
        "baseline_off_cmd": "cd /repo && go build ./... && go test -json -vet=off -count=1 -timeout 25m ./...",
        "source_commits": hook_commits(),
        "add_only": True,
    },
    "engines": [{
        "name": "mc", "path": "/verif/src/mc", "serves_properties": sorted(CLAIMED),
        "kind_free_text": "hand-written bounded-exhaustive explorer: deviation-bounded choice-tree DFS over the real implementation (in-process, or in watchdog-supervised worker subprocesses), explicit-state search over operation histories, cooperative scheduler for interleavings; oracles are independent reference models in Go",
    }],
    "checks": checks,
    "not_applicable": na,
    "notes": "All checks are built from /repo's working tree on every invocation through `go build -overlay` (virtual package inside the repository's module; /repo is never written to). known_findings.jsonl lists genuine defects (open or fixed).",
}
json.dump(m, open(os.path.join(HERE, "MANIFEST.json"), "w"), indent=1)
print("MANIFEST.json: %d checks, %d not_applicable" % (len(checks), len(na)))
